#!/usr/bin/env python3
"""Composition test of behaviour-preserving refactorings: random k-subsets of the diffs under
/verif/seeded_refactors/*/ are applied together to a scratch copy of /repo (outside /repo and
/verif); subsets that apply cleanly, build and pass the pinned suite are analysed by every
registered check as one overlay. Any alarm is a false alarm of the machinery.
Usage: compose_eval.py [--k 3] [--n 30] [--seed 1] [--jobs 4]"""
import argparse, glob, json, os, random, shutil, subprocess, tempfile, concurrent.futures

ENV = dict(os.environ, GOFLAGS='-mod=mod', GOPROXY='off', GOSUMDB='off', GOTOOLCHAIN='local', GOWORK='off')
BIN = os.environ.get('FLYTSA_BIN', '/verif/bin/flytsa')


def sh(cmd, cwd, timeout=600):
    return subprocess.run(cmd, cwd=cwd, env=ENV, capture_output=True, text=True, timeout=timeout)


def evaluate(diffs, props):
    out = {'diffs': [os.path.relpath(d, '/verif/seeded_refactors') for d in diffs]}
    tmp = tempfile.mkdtemp(prefix='flyt-ce-')
    try:
        for f in os.listdir('/repo'):
            if f.endswith('.go') or f in ('go.mod', 'go.sum'):
                shutil.copy(os.path.join('/repo', f), tmp)
        for d in diffs:
            r = sh(['patch', '-p1', '--no-backup-if-mismatch', '-F', '0', '-i', d], tmp)
            if r.returncode != 0:
                out['status'] = 'conflict'
                return out
        if sh(['go', 'build', './...'], tmp).returncode != 0:
            out['status'] = 'buildfail'
            return out
        if sh(['go', 'test', '-count=1', '-vet=off', '.'], tmp).returncode != 0:
            out['status'] = 'testfail'
            return out
        files = {}
        for f in os.listdir(tmp):
            if f.endswith('.go') and not f.endswith('_test.go'):
                new = open(os.path.join(tmp, f)).read()
                if not os.path.exists(os.path.join('/repo', f)) or new != open(os.path.join('/repo', f)).read():
                    files[os.path.join('/repo', f)] = new
        ov = os.path.join(tmp, 'overlay.json')
        json.dump(files, open(ov, 'w'))
        r = subprocess.run([BIN, 'check', '-prop', ','.join(props) + ',', '-tier', 'quick', '-overlay', ov, '-outdir', os.path.join(tmp, 'out')], capture_output=True, text=True)
        try:
            line = [l for l in r.stdout.splitlines() if l.startswith('{')][-1]
            out['alarms'] = {k: v for k, v in json.loads(line).items() if k and v}
        except Exception:
            out['alarms'] = {'error': (r.stderr or r.stdout)[-300:]}
        out['status'] = 'analysed'
    finally:
        shutil.rmtree(tmp, ignore_errors=True)
    return out


def main():
    ap = argparse.ArgumentParser()
    ap.add_argument('--k', type=int, default=3)
    ap.add_argument('--n', type=int, default=30)
    ap.add_argument('--seed', type=int, default=1)
    ap.add_argument('--jobs', type=int, default=4)
    a = ap.parse_args()
    diffs = sorted(glob.glob('/verif/seeded_refactors/*/refactor_*.diff'))
    props = [c['property_id'] for c in json.load(open('/verif/MANIFEST.json'))['checks']]
    rnd = random.Random(a.seed)
    subsets = [rnd.sample(diffs, a.k) for _ in range(a.n)]
    stats = {}
    with concurrent.futures.ThreadPoolExecutor(a.jobs) as ex:
        for res in ex.map(lambda s: evaluate(s, props), subsets):
            stats[res['status']] = stats.get(res['status'], 0) + 1
            if res['status'] == 'analysed':
                print(json.dumps(res))
    print(json.dumps(stats))


if __name__ == '__main__':
    main()
