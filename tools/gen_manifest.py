#!/usr/bin/env python3
"""Regenerates /verif/MANIFEST.json from the table below (kept by hand)."""
import json
props = {json.loads(l)['id']: json.loads(l) for l in open('/verif/properties.jsonl')}
NOTE = ("Trusted base: go/types + go/ssa (x/tools v0.29.0) and the analyser itself (exercised both ways by the self-test catalogue under /verif/sa/selftest); "
        "runtime contracts of sync/time/context/errors/reflect/encoding/json; user callbacks are opaque and do not panic; retry budget N>=1; receivers non-nil. "
        "Decides the stated structural clause on every abstract path; does not observe executions.")
CLAIMED = {
 "C01": ("Sound static decision, over all abstract paths of Run (every outcome script, budget N>=1, node kind), of the structural clauses: call order and multiplicity of prep/exec/post, identity of the values threaded between them, and the return discipline. Does not decide what user callbacks do.",
         "static analysis: path-sensitive typestate + value-provenance abstract interpretation over go/ssa", "DESIGN.md §5 C01"),
 "C02": ("Sound static decision for every budget N>=1 (N symbolic): the retry loop performs exactly N iterations when left through its budget test (scalar-evolution arithmetic), the tested value is the node's GetMaxRetries() (or 1 without retry settings), one attempt per iteration, further attempts only after known failures, fallback exactly once iff exhausted with the last error; on the single-node and the per-item path.",
         "static analysis: scalar-evolution trip count + path-sensitive retry typestate over go/ssa", "DESIGN.md §5 C02"),
 "C03": ("Sound static decision of routing on every abstract path of Flow.Exec: start node first; each next node is exactly transitions[prev][its action]; decisions between nodes depend only on that lookup, the child's error and the context; success only when the lookup is known absent/nil; no heap effects while running; Connect overwrites per (from, action) unconditionally; entering a flow (its own prep/post) cannot fail and keeps no state, atomics included, so a repeated run starts like the first. Covers cycles, self-loops, re-connections and repeated runs because the rule is per step over arbitrary table contents.",
         "static analysis: path-sensitive routing-provenance abstract interpretation + map-effect analysis over go/ssa", "DESIGN.md §5 C03"),
 "C04": ("Sound static decision over all abstract paths of Run that nil is returned iff post succeeded, that every error return wraps the failing callback's own error term, that no callback follows a failing one, and that neither post nor the end of a batch run can be reached while submitted tasks may still be running callbacks.",
         "static analysis: path-sensitive error-provenance (wrap-chain) abstract interpretation over go/ssa", "DESIGN.md §5 C04"),
 "C05": ("Sound static decision over all abstract paths of the single-node Run that a context observation precedes prep and every attempt, and that every cancelled edge returns a wrapped ctx.Err() without further callbacks. Promptness/timing not decided.",
         "static analysis: path-sensitive context-observation typestate over go/ssa", "DESIGN.md §5 C05"),
 "C06": ("Sound static decision on all abstract paths of the batch run (28-cell case split over configuration, node type and prep type; task closure inlined at Submit): slot i is written only through the iteration's own index from the outcome of items[i]; len(results)=len(items); Wait separates the last Submit from post; post once with (items, results); function-style exec runs the user's function exactly once for every item whatever the item carries; every slice index on the batch paths is provably in bounds; post is handed empty lists only when prep's list is known to be empty. Completion order is irrelevant once these hold; the memory-model visibility is taken from sync.",
         "static analysis: path-sensitive slot-coverage/provenance abstract interpretation over go/ssa", "DESIGN.md §5 C06"),
 "C07": ("Sound static decision: continue mode has no early loop exit; exactly one exec chain per item unless cancelled; per-item chain obeys the C02 rules; the per-item path's write effects are its own slot and boolean constants to the mutex-guarded flag only; failed slots hold the last attempt's/fallback's error; function-style exec never passes an item over; the mode setters write the mode.",
         "static analysis: path-sensitive per-item typestate + effect analysis over go/ssa", "DESIGN.md §5 C07"),
 "C08": ("Sound static decision of the structural cause of the bound and of its usability: exactly max(1,workers) worker goroutines are started (symbolic trip count) and nothing else in the package starts goroutines; each worker runs one received task at a time synchronously; only the worker function takes tasks off the queue; item executions happen only inside submitted tasks on a pool sized by the node's configured concurrency, and in index order without a pool when concurrency<=0; no item executes while the batch mutex is held and nothing is submitted after the pool was waited on (no barrier between submissions). Scheduling itself is not decided.",
         "static analysis: trip-count analysis of the spawn loop + path-sensitive typestate of worker and batch dispatch over go/ssa", "DESIGN.md §5 C08"),
 "C09": ("Sound static decision: stop mode halts (sequential: no exec after a stored failure; concurrent: flag read under the mutex gates exec, failing task sets it under the mutex, mutex released on all task paths) ; Submit queues by one blocking send in the caller (start order = item order with one worker); and slot coverage: every slot is assigned an item outcome or an error on every path reaching post.",
         "static analysis: path-sensitive slot-coverage + lock-held typestate over go/ssa", "DESIGN.md §5 C09"),
 "C10": ("Sound static decision that a flow used as a node threads the parent's store and context to every child, reports the last child's action, is run by Run like any node (no type test for *Flow), has the default one-attempt budget, and that NewFlow keeps a flow passed as start node as that node (no look inside); with C01/C03/C04 this gives the flattening argument by induction on nesting.",
         "static analysis: path-sensitive value-provenance abstract interpretation over go/ssa", "DESIGN.md §5 C10"),
 "C11": ("Sound static decision of the structural causes: per-item/per-attempt context observation, interruptible per-item wait, every unexecuted item's slot is an error at post, mutex released on every task path and Wait before post (no hang), and a batch run that saw the cancellation and ends without post returns an error wrapping ctx.Err(). Wall-clock promptness and which worker holds which item are not decided.",
         "static analysis: path-sensitive context-observation typestate + slot coverage over go/ssa", "DESIGN.md §5 C11"),
 "C12": ("Sound static decision of the pool's typestate: Add(1) dominates a blocking send of a wrapper that runs the task exactly once and signals Done exactly once afterwards on every exit; only workers receive and each runs a received task once; Wait reaches wg.Wait; Close closes a channel that makes every worker's blocking point return; nobody else touches the pool's fields. Memory visibility is the WaitGroup contract.",
         "static analysis: path-sensitive typestate over sync/channel events of the pool's functions + who-may-touch scan", "DESIGN.md §5 C12"),
 "C13": ("Sound static decision of a sufficient condition for linearizability and race freedom of the store: each operation's atomic section answers as the plain map would (per-method effect summaries, shared with C14), and every access to the map happens inside exactly one critical section of the store's own mutex per operation (write-locked for mutations), balanced on all paths, no nested store calls under the lock, the internal map never escapes. Linearization points lie inside the section; Merge/Clear are single write sections.",
         "static analysis: path-sensitive lockset / critical-section typestate over go/ssa", "DESIGN.md §5 C13"),
 "C14": ("Sound static decision that each direct method's map-effect summary equals its map operation (Set/Get/Has/Delete/Len/Clear/Merge/Keys/GetAll), that the map field only ever holds maps made by the store itself, and that snapshots are containers made in the call and not retained; by induction over operation sequences the store equals the model map.",
         "static analysis: per-method map-effect summaries compared with a specification table", "DESIGN.md §5 C14"),
 "C15": ("Sound static decision of totality (no instruction of a non-Must accessor can panic; reflect preconditions implied on every path) and of faithfulness: each accessor's extracted decision table equals the documented one for every case (absent key, nil, the 12 numeric kinds, string, bool, []any, map[string]any, other slice kinds, other types), with Go's conversion of the asserted value as result and the variant's default/zero/panic otherwise; ToSlice summary as documented; the constructors NewResult/R/NewErrorResult hold exactly their argument. Numeric results of Go's conversions are the specification.",
         "static analysis: may-panic scan + path-sensitive reflect-precondition check + decision-table extraction vs. specification table", "DESIGN.md §5 C15"),
 "C16": ("Sound static decision that neither Bind can panic (reflect preconditions implied by path facts), that the identity copy happens exactly under type identity and copies the value itself, that otherwise json.Unmarshal receives exactly json.Marshal's output and the destination and both errors are returned, that invalid inputs end in errors, that Bind writes nothing but the destination, that both Binds have the same outcome classes, and that the value a Result binds is exactly its constructor's argument. encoding/json itself is the reference.",
         "static analysis: may-panic scan + path-sensitive reflect-precondition and Marshal->Unmarshal provenance check + sibling comparison", "DESIGN.md §5 C16"),
 "C17": ("Sound static decision, by compositional symbolic exploration of every producer/consumer adapter pair of function-style nodes, that the Result a phase function receives carries exactly the value the previous phase's function returned, that an error Result from exec reaches post as the identical Result (no second wrap, no strip), that batch items reach exec unwrapped, and that the Any-style wrappers of all three construction forms meet one specification (hence are interchangeable), that the builders' phase methods hand the embedded node's results back unchanged, and that Run hands post exactly what the successful exec returned. Assumes payloads are not themselves Results (A5).",
         "static analysis: compositional symbolic exploration of adapter pairs + wrapper summaries vs. specification", "DESIGN.md §5 C17"),
 "C18": ("Sound static decision that every nil-error return of Run (single, batch, empty batch) carries a provably non-empty action.",
         "static analysis: path-sensitive return-predicate analysis over go/ssa", "DESIGN.md §5 C18"),
 "C19": ("Sound static decision that the option, NodeBuilder and BatchNodeBuilder form of each setting have equal single-field effect summaries (scalar settings store their argument unconditionally and unchanged; Any-style settings install wrappers with equal path signatures), that constructors apply every accepted option exactly once in argument order and accept the same option kinds, that option classes write disjoint fields (so any mixture is last-wins), that unconfigured nodes have the documented defaults and getters/constants agree, and that the lifecycle reads the configuration through the getters of the node being run, that applying an option object runs its setter once on the node, and that every configurable function field is called by a phase method.",
         "static analysis: setter effect summaries across forms + constructor dispatch/apply-loop typestate + default summaries", "DESIGN.md §5 C19"),
 "C20": ("Sound static decision of the structural cause of the timing statement: a wait event with the node's GetWait() duration lies exactly between a failed attempt and the next (unless wait<=0 is established), none before the first or after the last attempt, every wait selects on ctx.Done(), no time.Sleep; every form of the wait setter stores its argument unconditionally and the getter returns that field. Elapsed time itself is the time package's contract.",
         "static analysis: path-sensitive wait-event typestate over go/ssa", "DESIGN.md §5 C20"),
}
NA_REASON = {}
def check(pid):
    text, tech, ref = CLAIMED[pid]
    return {"property_id": pid,
            "quick_cmd": f"/verif/bin/flytsa check -prop {pid} -tier quick",
            "thorough_cmd": f"/verif/bin/flytsa check -prop {pid} -tier thorough",
            "evidence_file": f"/verif/evidence/{pid}.json",
            "replay_cmd_template": "/verif/bin/flytsa explain {path}",
            "engine": "flytsa",
            "level_claimed": {"category": "other", "text": text, "design_ref": ref},
            "level_note": NOTE, "technique": tech}
m = {
 "version": 1,
 "setup_cmd": "cd /verif/sa && GOFLAGS=-mod=vendor GOPROXY=off GOSUMDB=off GOTOOLCHAIN=local GOWORK=off go build -o /verif/bin/flytsa ./cmd/flytsa",
 "hooks": {"guard": "verif", "enable": "none: static analysis needs no instrumentation; no file in /repo uses the tag (the thorough tier also analyses the package with the tag set)",
           "baseline_off_cmd": "cd /repo && go test -vet=off -count=1 ./...", "source_commits": [], "add_only": True},
 "engines": [{"name": "flytsa", "path": "/verif/sa", "serves_properties": sorted(CLAIMED),
              "kind_free_text": "static analysis over go/types + go/ssa: path-sensitive typestate/provenance abstract interpretation, scalar-evolution trip counts, lockset, may-panic, effect and sibling summaries"}],
 "checks": [check(p) for p in sorted(CLAIMED)],
 "not_applicable": [{"property_id": p, "reason": NA_REASON.get(p, "rules not implemented yet (build in progress, see DESIGN.md section 9)")} for p in sorted(props) if p not in CLAIMED],
 "notes": "All checks are static: they load /repo's current working tree with go/packages, build go/ssa and decide rules over it; nothing executes flyt code. See DESIGN.md.",
}
json.dump(m, open('/verif/MANIFEST.json', 'w'), indent=1)
print("claimed:", sorted(CLAIMED))
