#!/usr/bin/env python3
"""Applies catalogue entries (or a patch file) to a scratch copy of /repo outside /repo and /verif,
builds it and runs the pinned test suite; prints PASS / TESTFAIL / BUILDFAIL per entry.
The scratch copy is removed afterwards. Usage: suite_check.py [--only substr] [--update]"""
import json, os, shutil, subprocess, sys, tempfile, argparse
sys.path.insert(0, '/verif/tools')
import selftest
ENV = dict(os.environ, GOFLAGS='-mod=mod', GOPROXY='off', GOSUMDB='off', GOTOOLCHAIN='local', GOWORK='off')

def run(entry):
    files, err = selftest.overlay_for(entry)
    if err:
        return 'STALE', err
    tmp = tempfile.mkdtemp(prefix='flyt-suite-')
    try:
        for f in os.listdir('/repo'):
            if f.endswith('.go') or f == 'go.mod':
                shutil.copy(os.path.join('/repo', f), tmp)
        for path, content in files.items():
            open(os.path.join(tmp, os.path.basename(path)), 'w').write(content)
        b = subprocess.run(['go', 'build', './...'], cwd=tmp, env=ENV, capture_output=True, text=True)
        if b.returncode != 0:
            return 'BUILDFAIL', b.stderr.strip().splitlines()[-1] if b.stderr.strip() else ''
        v = subprocess.run(['go', 'vet', '.'], cwd=tmp, env=ENV, capture_output=True, text=True)
        t = subprocess.run(['go', 'test', '-count=1', '-vet=off', './...'], cwd=tmp, env=ENV, capture_output=True, text=True)
        if t.returncode != 0:
            fails = [l.split()[2] for l in t.stdout.splitlines() if l.startswith('--- FAIL')]
            return 'TESTFAIL', ','.join(fails[:4])
        return 'PASS', ('vet:' + v.stderr.strip().splitlines()[-1]) if v.returncode != 0 else ''
    finally:
        shutil.rmtree(tmp, ignore_errors=True)

def main():
    ap = argparse.ArgumentParser()
    ap.add_argument('--only', default='')
    ap.add_argument('--update', action='store_true')
    a = ap.parse_args()
    path = '/verif/sa/selftest/seed_mutants.json'
    d = json.load(open(path))
    for m in d['mutants']:
        if a.only and a.only not in m['id']:
            continue
        m2 = dict(m); m2['kind'] = 'mutant'
        verdict, detail = run(m2)
        print(f"{m['id']:45s} {verdict:9s} {detail}")
        if a.update and verdict in ('PASS', 'TESTFAIL', 'BUILDFAIL'):
            m['suite'] = verdict
            m['suite_detail'] = [detail] if detail else []
    if a.update:
        json.dump(d, open(path, 'w'), indent=1)

if __name__ == '__main__':
    main()
