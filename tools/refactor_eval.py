#!/usr/bin/env python3
"""Evaluates behaviour-preserving refactorings (unified diffs) written by sub-agents: each is applied to a scratch
copy of /repo (outside /repo and /verif), must build and pass the pinned suite, and is then analysed by every
registered check as an overlay. Any alarm is a false alarm of the machinery (or the refactoring is not equivalent:
read it). Usage: refactor_eval.py <dir> [--props ...] [--import]"""
import json, os, shutil, subprocess, sys, tempfile, argparse, glob
ENV = dict(os.environ, GOFLAGS='-mod=mod', GOPROXY='off', GOSUMDB='off', GOTOOLCHAIN='local', GOWORK='off')
BIN = os.environ.get('FLYTSA_BIN', '/verif/bin/flytsa')
sys.path.insert(0, '/verif/tools')
import import_agent

def sh(cmd, cwd):
    return subprocess.run(cmd, cwd=cwd, env=ENV, capture_output=True, text=True, timeout=900)

def evaluate(diff, props):
    out = {'diff': diff}
    tmp = tempfile.mkdtemp(prefix='flyt-re-')
    try:
        for f in os.listdir('/repo'):
            if f.endswith('.go') or f == 'go.mod':
                shutil.copy(os.path.join('/repo', f), tmp)
        r = sh(['patch', '-p1', '--no-backup-if-mismatch', '-i', diff], tmp)
        out['applies'] = r.returncode == 0
        if not out['applies']:
            return out
        out['builds'] = sh(['go', 'build', './...'], tmp).returncode == 0
        out['vet'] = sh(['go', 'vet', '.'], tmp).returncode == 0
        t = sh(['go', 'test', '-count=1', '-vet=off', '.'], tmp)
        out['suite'] = t.returncode == 0
        files = {}
        for f in os.listdir(tmp):
            if f.endswith('.go') and not f.endswith('_test.go'):
                new = open(os.path.join(tmp, f)).read()
                if not os.path.exists(os.path.join('/repo', f)) or new != open(os.path.join('/repo', f)).read():
                    files[os.path.join('/repo', f)] = new
        ov = os.path.join(tmp, 'overlay.json')
        json.dump(files, open(ov, 'w'))
        r = subprocess.run([BIN, 'check', '-prop', ','.join(props) + ',', '-tier', 'quick', '-overlay', ov, '-outdir', tmp], capture_output=True, text=True)
        try:
            line = [l for l in r.stdout.splitlines() if l.startswith('{')][-1]
            out['alarms'] = {k: v for k, v in json.loads(line).items() if k and v}
        except Exception:
            out['alarms'] = {'error': (r.stderr or r.stdout)[-300:]}
    finally:
        shutil.rmtree(tmp, ignore_errors=True)
    return out

def main():
    ap = argparse.ArgumentParser()
    ap.add_argument('dir')
    ap.add_argument('--props', default='')
    ap.add_argument('--import', dest='imp', action='store_true', help='add silent, suite-passing refactorings to benign_variants.json')
    a = ap.parse_args()
    m = json.load(open('/verif/MANIFEST.json'))
    props = a.props.split(',') if a.props else [c['property_id'] for c in m['checks']]
    idx = {}
    try:
        for e in json.load(open(os.path.join(a.dir, 'index.json'))):
            idx[e['file']] = e
    except Exception:
        pass
    tag = os.path.basename(a.dir.rstrip('/'))
    for diff in sorted(glob.glob(os.path.join(a.dir, 'refactor_*.diff'))):
        res = evaluate(diff, props)
        meta = idx.get(os.path.basename(diff), {})
        print(json.dumps({'file': os.path.basename(diff), 'summary': meta.get('summary', ''), **{k: v for k, v in res.items() if k != 'diff'}}))
        if a.imp and res.get('suite') and res.get('builds'):
            edits = import_agent.hunks_to_edits(open(diff).read())
            b = '/verif/sa/selftest/benign_variants.json'
            bd = json.load(open(b))
            vid = f"b-agent-{tag.lower()}-{os.path.basename(diff)[9:-5]}"
            bd['variants'] = [v for v in bd['variants'] if v['id'] != vid]
            bd['variants'].append({'id': vid, 'property': 'any', 'description': 'refactoring written by an independent sub-agent: ' + meta.get('summary', ''), 'why_equivalent': meta.get('why_equivalent', ''), 'edits': edits})
            json.dump(bd, open(b, 'w'), indent=1)

if __name__ == '__main__':
    main()
