#!/usr/bin/env python3
"""Generic mutation sweep (a test of the checker, not a check): every single-point mutation
listed by sa/cmd/mutgen is applied to a scratch copy of /repo's root package (outside /repo and
/verif), built and run against the pinned suite; the ones the suite does not see are analysed by
every registered check as an overlay. Output: one JSON object per mutant (append-only, resumable).
Survivors (suite green, all checks silent) need manual triage: equivalent mutant, outside the
twenty properties, or a gap in the rules.
Usage: mutsweep.py --out FILE [--jobs N] [--filter substr] [--limit N]"""
import argparse, json, os, shutil, subprocess, sys, tempfile, threading, queue

ENV = dict(os.environ, GOFLAGS='-mod=mod', GOPROXY='off', GOSUMDB='off', GOTOOLCHAIN='local', GOWORK='off')
BIN = os.environ.get('FLYTSA_BIN', '/verif/bin/flytsa')
MUTGEN = os.environ.get('MUTGEN_BIN', '/tmp/mutgen')


def sh(cmd, cwd, timeout=300):
    try:
        return subprocess.run(cmd, cwd=cwd, env=ENV, capture_output=True, text=True, timeout=timeout)
    except subprocess.TimeoutExpired:
        class R:  # noqa
            returncode, stdout, stderr = 124, '', 'timeout'
        return R()


def worker(k, q, out, lock, props):
    tmp = tempfile.mkdtemp(prefix='flyt-ms-%d-' % k)
    try:
        for f in os.listdir('/repo'):
            if f.endswith('.go') or f in ('go.mod', 'go.sum'):
                shutil.copy(os.path.join('/repo', f), tmp)
        while True:
            try:
                m = q.get_nowait()
            except queue.Empty:
                return
            src = open(os.path.join('/repo', m['file']), 'rb').read()
            new = src[:m['start']] + m['new'].encode() + src[m['end']:]
            open(os.path.join(tmp, m['file']), 'wb').write(new)
            rec = {k2: m[k2] for k2 in ('id', 'file', 'line', 'func', 'op', 'old', 'new')}
            b = sh(['go', 'build', './...'], tmp)
            if b.returncode != 0:
                rec['suite'] = 'BUILDFAIL'
            else:
                t = sh(['go', 'test', '-count=1', '-vet=off', '-timeout', '120s', '.'], tmp, timeout=200)
                if t.returncode == 0:
                    rec['suite'] = 'PASS'
                elif t.returncode == 124 or 'panic: test timed out' in (t.stdout + t.stderr):
                    rec['suite'] = 'TIMEOUT'
                else:
                    rec['suite'] = 'TESTFAIL'
                    rec['failed'] = [l.split()[2] for l in t.stdout.splitlines() if l.startswith('--- FAIL')][:4]
            if rec['suite'] in ('PASS', 'TIMEOUT', 'TESTFAIL'):
                ov = os.path.join(tmp, 'ov.json')
                json.dump({'/repo/' + m['file']: new.decode()}, open(ov, 'w'))
                outdir = os.path.join(tmp, 'out')
                r = subprocess.run([BIN, 'check', '-prop', ','.join(props) + ',', '-tier', 'quick', '-overlay', ov, '-outdir', outdir], capture_output=True, text=True)
                try:
                    line = [l for l in r.stdout.splitlines() if l.startswith('{')][-1]
                    rec['flagged'] = {k2: v for k2, v in json.loads(line).items() if k2 and v}
                except Exception:
                    rec['flagged'] = {'error': [(r.stderr or r.stdout)[-300:]]}
                shutil.rmtree(outdir, ignore_errors=True)
            shutil.copy(os.path.join('/repo', m['file']), os.path.join(tmp, m['file']))
            with lock:
                out.write(json.dumps(rec) + '\n')
                out.flush()
    finally:
        shutil.rmtree(tmp, ignore_errors=True)


def main():
    ap = argparse.ArgumentParser()
    ap.add_argument('--out', required=True)
    ap.add_argument('--jobs', type=int, default=3)
    ap.add_argument('--filter', default='')
    ap.add_argument('--limit', type=int, default=0)
    ap.add_argument('--third', action='store_true', help='third operator set (wrong variable of the same type)')
    ap.add_argument('--fourth', action='store_true', help='fourth operator set (dropped operands, sibling methods/fields/constants/functions, zero results, dropped else, constant conditions)')
    ap.add_argument('--second', action='store_true', help='second operator set (swap adjacent statements, duplicate calls)')
    a = ap.parse_args()
    muts = json.loads(subprocess.run([MUTGEN, '-dir', '/repo'] + (['-second'] if a.second else []) + (['-third'] if a.third else []) + (['-fourth'] if a.fourth else []), capture_output=True, text=True, check=True).stdout)
    done = set()
    if os.path.exists(a.out):
        for l in open(a.out):
            try:
                done.add(json.loads(l)['id'])
            except Exception:
                pass
    muts = [m for m in muts if m['id'] not in done and a.filter in m['id'] + ' ' + m['func']]
    if a.limit:
        muts = muts[:a.limit]
    props = [c['property_id'] for c in json.load(open('/verif/MANIFEST.json'))['checks']]
    q = queue.Queue()
    for m in muts:
        q.put(m)
    lock = threading.Lock()
    with open(a.out, 'a') as out:
        ts = [threading.Thread(target=worker, args=(k, q, out, lock, props)) for k in range(a.jobs)]
        for t in ts:
            t.start()
        for t in ts:
            t.join()
    print('done', len(muts))


if __name__ == '__main__':
    main()
