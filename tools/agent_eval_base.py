#!/usr/bin/env python3
"""Like agent_eval.py, but for a change written against a refactored base tree (a directory
with the library sources after some behaviour-preserving refactorings): confirms the change
there (patch applies, build, vet, pinned suite, demonstration fails with / passes without) and
runs every registered check on base+change as an overlay over /repo.
Usage: agent_eval_base.py <base-dir> <agent-out-dir>"""
import json, os, shutil, subprocess, sys, tempfile
ENV = dict(os.environ, GOFLAGS='-mod=mod', GOPROXY='off', GOSUMDB='off', GOTOOLCHAIN='local', GOWORK='off')
BIN = os.environ.get('FLYTSA_BIN', '/verif/bin/flytsa')

def sh(cmd, cwd, timeout=900):
    return subprocess.run(cmd, cwd=cwd, env=ENV, capture_output=True, text=True, timeout=timeout)

def main():
    base, d = sys.argv[1], sys.argv[2]
    out = {'dir': d, 'base': base}
    tmp = tempfile.mkdtemp(prefix='flyt-aeb-')
    try:
        for f in os.listdir(base):
            if f.endswith('.go') or f in ('go.mod', 'go.sum'):
                shutil.copy(os.path.join(base, f), tmp)
        demo = os.path.join(d, 'demo_test.go')
        shutil.copy(demo, os.path.join(tmp, 'zz_demo_test.go'))
        race = []
        try:
            if json.load(open(os.path.join(d, 'meta.json'))).get('demo_needs_race_detector'):
                race = ['-race']
        except Exception:
            pass
        t = sh(['go', 'test', '-count=1', '-vet=off'] + race + ['.'], tmp)
        out['demo_passes_without_change'] = t.returncode == 0
        r = sh(['patch', '-p1', '--no-backup-if-mismatch', '-i', os.path.join(d, 'patch.diff')], tmp)
        out['patch_applies'] = r.returncode == 0
        if r.returncode == 0:
            out['builds'] = sh(['go', 'build', './...'], tmp).returncode == 0
            out['vet_clean'] = sh(['go', 'vet', '.'], tmp).returncode == 0
            t = sh(['go', 'test', '-count=1', '-vet=off'] + race + ['.'], tmp)
            out['demo_fails_with_change'] = t.returncode != 0
            os.remove(os.path.join(tmp, 'zz_demo_test.go'))
            out['existing_suite_passes'] = sh(['go', 'test', '-count=1', '-vet=off', '.'], tmp).returncode == 0
            files = {}
            for f in os.listdir(tmp):
                if f.endswith('.go') and not f.endswith('_test.go'):
                    new = open(os.path.join(tmp, f)).read()
                    if not os.path.exists(os.path.join('/repo', f)) or new != open(os.path.join('/repo', f)).read():
                        files[os.path.join('/repo', f)] = new
            ov = os.path.join(tmp, 'overlay.json')
            json.dump(files, open(ov, 'w'))
            shutil.copy(ov, os.path.join(d, 'overlay_on_repo.json'))
            props = [c['property_id'] for c in json.load(open('/verif/MANIFEST.json'))['checks']]
            r = subprocess.run([BIN, 'check', '-prop', ','.join(props) + ',', '-tier', 'quick', '-overlay', ov, '-outdir', os.path.join(tmp, 'out')], capture_output=True, text=True)
            try:
                line = [l for l in r.stdout.splitlines() if l.startswith('{')][-1]
                out['checks_flagging'] = {k: v for k, v in json.loads(line).items() if k and v}
            except Exception:
                out['checks_flagging'] = {'error': (r.stderr or r.stdout)[-300:]}
    finally:
        shutil.rmtree(tmp, ignore_errors=True)
    print(json.dumps(out, indent=1))

if __name__ == '__main__':
    main()
