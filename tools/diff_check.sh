#!/bin/bash
# usage: diff_check.sh <diff> <prop> — applies the diff to a scratch copy, runs one check verbosely on the overlay
set -e
D=$(mktemp -d /tmp/flyt-dc-XXXX)
cp /repo/*.go /repo/go.mod $D/
(cd $D && patch -p1 -s --no-backup-if-mismatch -i "$1")
python3 - "$D" <<'PY'
import json,os,sys
d=sys.argv[1]; files={}
for f in os.listdir(d):
    if f.endswith('.go') and not f.endswith('_test.go'):
        n=open(os.path.join(d,f)).read()
        if not os.path.exists('/repo/'+f) or n!=open('/repo/'+f).read(): files['/repo/'+f]=n
json.dump(files,open(d+'/ov.json','w'))
PY
${FLYTSA_BIN:-/verif/bin/flytsa} check -prop "$2" -overlay $D/ov.json -outdir $D/out 2>&1 | grep -v "^  ok" | cut -c1-${3:-600} | head -${4:-40}
rm -rf $D
