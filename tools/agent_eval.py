#!/usr/bin/env python3
"""Confirms a sub-agent's change (patch.diff + demo_test.go under a directory) on a scratch copy of /repo
outside /repo and /verif, then runs the registered checks on it as an overlay. The scratch copy is removed.
Usage: agent_eval.py <dir-with-patch> [--props C01,C02] [--apply-in-repo]
With --apply-in-repo the patch is applied to /repo itself (git apply), the quick checks are run there, and it
is undone straight afterwards (git checkout -- .)."""
import json, os, shutil, subprocess, sys, tempfile, argparse, re
ENV = dict(os.environ, GOFLAGS='-mod=mod', GOPROXY='off', GOSUMDB='off', GOTOOLCHAIN='local', GOWORK='off')
BIN = os.environ.get('FLYTSA_BIN', '/verif/bin/flytsa')

def sh(cmd, cwd, timeout=600):
    return subprocess.run(cmd, cwd=cwd, env=ENV, capture_output=True, text=True, timeout=timeout)

def main():
    ap = argparse.ArgumentParser()
    ap.add_argument('dir')
    ap.add_argument('--props', default='')
    ap.add_argument('--apply-in-repo', action='store_true')
    a = ap.parse_args()
    d = a.dir
    patch = os.path.join(d, 'patch.diff')
    demo = os.path.join(d, 'demo_test.go')
    out = {'dir': d}
    tmp = tempfile.mkdtemp(prefix='flyt-ae-')
    try:
        for f in os.listdir('/repo'):
            if f.endswith('.go') or f == 'go.mod':
                shutil.copy(os.path.join('/repo', f), tmp)
        shutil.copy(demo, os.path.join(tmp, 'zz_demo_test.go'))
        names = re.findall(r'^func (Test\w+)\(', open(demo).read(), re.M)
        runpat = '^(' + '|'.join(names) + ')$'
        r = sh(['go', 'test', '-count=1', '-vet=off', '-run', runpat, '.'], tmp)
        out['demo_passes_without_change'] = r.returncode == 0
        r = sh(['patch', '-p1', '--no-backup-if-mismatch', '-i', patch], tmp)
        out['patch_applies'] = r.returncode == 0
        if r.returncode != 0:
            out['patch_error'] = (r.stdout + r.stderr)[-300:]
        r = sh(['go', 'build', './...'], tmp)
        out['builds'] = r.returncode == 0
        r = sh(['go', 'vet', '.'], tmp)
        out['vet_clean'] = r.returncode == 0
        os.rename(os.path.join(tmp, 'zz_demo_test.go'), os.path.join(tmp, 'zz_demo.go.off'))
        r = sh(['go', 'test', '-count=1', '-vet=off', '.'], tmp)
        out['existing_suite_passes'] = r.returncode == 0
        if r.returncode != 0:
            out['suite_fail'] = [l for l in r.stdout.splitlines() if l.startswith('--- FAIL')][:5]
        os.rename(os.path.join(tmp, 'zz_demo.go.off'), os.path.join(tmp, 'zz_demo_test.go'))
        r = sh(['go', 'test', '-count=1', '-vet=off', '-run', runpat, '.'], tmp)
        out['demo_fails_with_change'] = r.returncode != 0
        # overlay for the checks
        files = {}
        for f in os.listdir(tmp):
            if f.endswith('.go') and not f.endswith('_test.go'):
                new = open(os.path.join(tmp, f)).read()
                if not os.path.exists(os.path.join('/repo', f)) or new != open(os.path.join('/repo', f)).read():
                    files[os.path.join('/repo', f)] = new
        out['files_changed'] = [os.path.basename(k) for k in files]
        ov = os.path.join(tmp, 'overlay.json')
        json.dump(files, open(ov, 'w'))
        m = json.load(open('/verif/MANIFEST.json'))
        props = a.props.split(',') if a.props else [c['property_id'] for c in m['checks']]
        r = subprocess.run([BIN, 'check', '-prop', ','.join(props) + ',', '-tier', 'quick', '-overlay', ov, '-outdir', tmp], capture_output=True, text=True)
        try:
            line = [l for l in r.stdout.splitlines() if l.startswith('{')][-1]
            res = {k: v for k, v in json.loads(line).items() if k and v}
        except Exception:
            res = {'error': (r.stderr or r.stdout)[-300:]}
        out['checks_flagging'] = res
    finally:
        shutil.rmtree(tmp, ignore_errors=True)
    if a.apply_in_repo:
        r = subprocess.run(['git', '-C', '/repo', 'apply', patch], capture_output=True, text=True)
        try:
            flagged = {}
            if r.returncode == 0:
                for p in (a.props.split(',') if a.props else []):
                    rr = subprocess.run([BIN, 'check', '-prop', p, '-tier', 'quick', '-outdir', tempfile.mkdtemp(prefix='flyt-ae-out-')], capture_output=True, text=True)
                    flagged[p] = rr.returncode
            out['in_repo_exit_codes'] = flagged
        finally:
            subprocess.run(['git', '-C', '/repo', 'checkout', '--', '.'])
    print(json.dumps(out, indent=1))

if __name__ == '__main__':
    main()
