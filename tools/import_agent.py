#!/usr/bin/env python3
"""Imports a confirmed sub-agent change into /verif/seeded/<id>/ and into the catalogue
(/verif/sa/selftest/agent_mutants.json) as old/new text edits derived from its unified diff.
Usage: import_agent.py <agent-out-dir> <id> <property> [detected-by json]"""
import json, os, re, shutil, sys

def hunks_to_edits(patch):
    edits = []
    cur_file = None
    lines = patch.splitlines()
    i = 0
    while i < len(lines):
        l = lines[i]
        if l.startswith('+++ '):
            cur_file = l[4:].strip()
            if cur_file.startswith('b/'):
                cur_file = cur_file[2:]
        if l.startswith('@@'):
            mm = re.match(r'@@ -(\d+)', l)
            start_line = int(mm.group(1)) if mm else 1
            old, new = [], []
            i += 1
            while i < len(lines) and not lines[i].startswith('@@') and not lines[i].startswith('diff --git'):
                h = lines[i]
                if h.startswith('\\'):
                    pass
                elif h.startswith('-'):
                    old.append(h[1:])
                elif h.startswith('+'):
                    new.append(h[1:])
                else:
                    old.append(h[1:] if h.startswith(' ') else h)
                    new.append(h[1:] if h.startswith(' ') else h)
                i += 1
            if not old and cur_file and not os.path.exists(os.path.join('/repo', cur_file)):
                edits.append({'file': cur_file, 'old': '', 'new': '\n'.join(new) + '\n', 'create': True})
            else:
                edits.append({'file': cur_file, 'old': '\n'.join(old) + '\n', 'new': '\n'.join(new) + '\n', '_line': start_line})
            continue
        i += 1
    return edits

def disambiguate(edits):
    """A hunk whose old text occurs more than once is extended upwards, line by line, from the
    occurrence the hunk header points at, until it is unique in the file."""
    for e in edits:
        if e.get('create') or not os.path.exists(os.path.join('/repo', e['file'])):
            continue
        src = open(os.path.join('/repo', e['file'])).read()
        if src.count(e['old']) <= 1:
            continue
        lines = src.split('\n')
        # offset of the intended occurrence: the hunk starts at _line (1-based)
        want = sum(len(x) + 1 for x in lines[:e.get('_line', 1) - 1])
        occ = [m.start() for m in re.finditer(re.escape(e['old']), src)]
        pos = min(occ, key=lambda o: abs(o - want))
        start = pos
        while src.count(src[start:pos + len(e['old'])]) > 1 and start > 0:
            start = src.rfind('\n', 0, start - 1) + 1
        prefix = src[start:pos]
        e['old'] = prefix + e['old']
        e['new'] = prefix + e['new']


def main():
    src, mid, prop = sys.argv[1], sys.argv[2], sys.argv[3]
    detected = json.loads(sys.argv[4]) if len(sys.argv) > 4 else {}
    dst = f'/verif/seeded/{mid}'
    os.makedirs(dst, exist_ok=True)
    shutil.copy(os.path.join(src, 'patch.diff'), dst)
    shutil.copy(os.path.join(src, "demo_test.go"), os.path.join(dst, "demo_test.go"))
    meta = json.load(open(os.path.join(src, 'meta.json')))
    meta['property'] = prop
    meta['origin'] = 'independent sub-agent (saw only the property text and a scratch worktree)'
    meta['confirmed_by'] = 'tools/agent_eval.py on a scratch copy: patch applies, go build + go vet clean, pinned suite passes, demo fails with the change and passes without it'
    meta['checks_flagging'] = detected
    json.dump(meta, open(os.path.join(dst, 'meta.json'), 'w'), indent=1)
    patch = open(os.path.join(src, 'patch.diff')).read()
    edits = hunks_to_edits(patch)
    disambiguate(edits)
    # verify anchors
    for e in edits:
        e.pop('_line', None)
        if e.get('create'):
            continue
        s = open(os.path.join('/repo', e['file'])).read()
        assert s.count(e['old']) == 1, (e['file'], s.count(e['old']))
    cat_path = '/verif/sa/selftest/agent_mutants.json'
    cat = json.load(open(cat_path)) if os.path.exists(cat_path) else {'note': 'changes written by independent sub-agents (see /verif/seeded/<id>/); all compile and pass the pinned suite', 'mutants': []}
    cat['mutants'] = [m for m in cat['mutants'] if m['id'] != mid]
    cat['mutants'].append({'id': mid, 'property': prop, 'expected_rule': '', 'suite': 'PASS', 'summary': meta.get('summary', ''), 'edits': edits})
    json.dump(cat, open(cat_path, 'w'), indent=1)
    print('imported', mid, len(edits), 'edits')

if __name__ == '__main__':
    main()
