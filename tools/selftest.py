#!/usr/bin/env python3
"""Self-test battery: applies the seeded mutants / benign variants of the catalogue
as in-memory overlays on /repo's current sources and runs the checks on them.
Nothing is written into /repo. Usage:
  selftest.py [--props C01,C02] [--only id-substring] [--all-props] [--jobs N] [--kind mutants|benign|both]
"""
import json, os, subprocess, sys, tempfile, argparse, concurrent.futures, shutil

VERIF = '/verif'
REPO = '/repo'
BIN = os.environ.get('FLYTSA_BIN', '/verif/bin/flytsa')

def load_catalog():
    cat = []
    d = json.load(open(f'{VERIF}/sa/selftest/seed_mutants.json'))
    for m in d['mutants']:
        m['kind'] = 'mutant'
        cat.append(m)
    for name in ('agent_mutants.json', 'base_mutants.json'):
        ap = f'{VERIF}/sa/selftest/{name}'
        if os.path.exists(ap):
            for m in json.load(open(ap))['mutants']:
                m['kind'] = 'mutant'
                cat.append(m)
    d = json.load(open(f'{VERIF}/sa/selftest/benign_variants.json'))
    for m in d['variants']:
        m['kind'] = 'benign'
        cat.append(m)
    return cat

def overlay_for(entry):
    files = {}
    if entry.get('overlay_file'):
        # a whole-file overlay over /repo (changes written against a refactored base)
        try:
            return json.load(open(entry['overlay_file'])), None
        except Exception as ex:
            return None, f"stale: overlay file: {ex}"
    for e in entry['edits']:
        path = os.path.join(REPO, e['file'])
        src = files.get(path)
        if src is None:
            if e.get('create') or (e['old'] == '' and not os.path.exists(path)):
                files[path] = e['new']  # a file the change adds to the package
                continue
            src = open(path).read()
        if src.count(e['old']) != 1:
            return None, f"stale: {e['file']}: old text occurs {src.count(e['old'])} times"
        files[path] = src.replace(e['old'], e['new'])
    return files, None

def claimed_props():
    m = json.load(open(f'{VERIF}/MANIFEST.json'))
    return [c['property_id'] for c in m['checks']]

def run_one(entry, props, tier):
    files, err = overlay_for(entry)
    if err:
        return entry['id'], {'_error': err}
    tmp = tempfile.mkdtemp(prefix='flytsa-st-')
    res = {}
    try:
        ov = os.path.join(tmp, 'overlay.json')
        json.dump(files, open(ov, 'w'))
        r = subprocess.run([BIN, 'check', '-prop', ','.join(props) + ',', '-tier', tier, '-overlay', ov, '-outdir', tmp], capture_output=True, text=True)
        try:
            line = [l for l in r.stdout.splitlines() if l.startswith('{')][-1]
            res = {k: v for k, v in json.loads(line).items() if k}
        except Exception as ex:
            res = {p: ['EXIT%d:%s' % (r.returncode, (r.stderr.strip().splitlines() or [''])[-1][:160])] for p in props}
    finally:
        shutil.rmtree(tmp, ignore_errors=True)
    return entry['id'], res

def main():
    ap = argparse.ArgumentParser()
    ap.add_argument('--props', default='')
    ap.add_argument('--only', default='')
    ap.add_argument('--all-props', action='store_true')
    ap.add_argument('--jobs', type=int, default=6)
    ap.add_argument('--kind', default='both')
    ap.add_argument('--tier', default='quick')
    ap.add_argument('--green-only', action='store_true')
    a = ap.parse_args()
    cat = load_catalog()
    claimed = claimed_props()
    sel = []
    for e in cat:
        if a.only and a.only not in e['id']:
            continue
        if a.kind != 'both' and not e['kind'].startswith(a.kind[:3]):
            continue
        if a.green_only and e['kind'] == 'mutant' and e.get('suite') != 'PASS':
            continue
        if a.props:
            ps = a.props.split(',')
            if e['property'] not in ps and not a.all_props:
                continue
        sel.append(e)
    jobs = []
    with concurrent.futures.ThreadPoolExecutor(max_workers=a.jobs) as ex:
        futs = {}
        for e in sel:
            if a.all_props:
                props = a.props.split(',') if a.props else claimed
            else:
                props = [e['property']] if e['property'] in claimed else []
                if a.props:
                    props = [p for p in a.props.split(',')]
            if not props:
                print(f"{e['id']:42s} {e['kind']:7s} prop {e['property']} not claimed yet")
                continue
            futs[ex.submit(run_one, e, props, a.tier)] = e
        killed = survived = silent = alarms = 0
        sibling_only = []
        for f in concurrent.futures.as_completed(futs):
            e = futs[f]
            eid, res = f.result()
            if '_error' in res:
                print(f"{eid:42s} {e['kind']:7s} {res['_error']}")
                continue
            flagged = {p: r for p, r in res.items() if r}
            tag = e.get('suite', '')
            if e['kind'] == 'mutant':
                own = res.get(e['property'])
                ok = bool(flagged)
                if ok: killed += 1
                else: survived += 1
                note = ''
                if ok and not own and e['property'] in res:
                    sibling_only.append(eid)
                    note = '  [not under its own property ' + e['property'] + ']'
                print(f"{eid:42s} mutant[{tag:8s}] {'KILLED  ' if ok else 'SURVIVED'} expected {e.get('expected_rule','')}: {flagged}{note}")
            else:
                if flagged: alarms += 1
                else: silent += 1
                print(f"{eid:42s} benign           {'ALARM   ' if flagged else 'silent  '} {flagged}")
        if sibling_only:
            print("reported, but not by the check of the property they were written against: " + ", ".join(sorted(sibling_only)))
        print(f"mutants killed={killed} survived={survived}; benign silent={silent} alarms={alarms}")

if __name__ == '__main__':
    main()
