package main

import (
	"bufio"
	"encoding/json"
	"flag"
	"flytsa/internal/eng"
	"fmt"
	"os"
	"path/filepath"
	"runtime"
	"runtime/pprof"
	"sort"
	"strconv"
	"strings"
	"time"

	"flytsa/internal/load"
	"flytsa/internal/rules"
)

const verifDir = "/verif"

// outDir is where evidence/ and reports/ are written (overridden for self-tests).
var outDir = verifDir

type knownFinding struct {
	Prop string
	Key  string
	Text string
}

func readKnownFindings() []knownFinding {
	var out []knownFinding
	f, err := os.Open(filepath.Join(verifDir, "known_findings.txt"))
	if err != nil {
		return nil
	}
	defer f.Close()
	sc := bufio.NewScanner(f)
	for sc.Scan() {
		line := strings.TrimSpace(sc.Text())
		if !strings.HasPrefix(line, "finding:") {
			continue
		}
		rest := strings.TrimSpace(strings.TrimPrefix(line, "finding:"))
		kf := knownFinding{}
		fields := strings.Fields(rest)
		var text []string
		for _, fl := range fields {
			switch {
			case strings.HasPrefix(fl, "property=") && kf.Prop == "":
				kf.Prop = strings.TrimPrefix(fl, "property=")
			case strings.HasPrefix(fl, "key=") && kf.Key == "":
				kf.Key = strings.TrimPrefix(fl, "key=")
			default:
				text = append(text, fl)
			}
		}
		kf.Text = strings.Join(text, " ")
		if kf.Prop != "" && kf.Key != "" {
			out = append(out, kf)
		}
	}
	return out
}

type report struct {
	Property    string      `json:"property"`
	Tier        string      `json:"tier"`
	Verdict     string      `json:"verdict"`
	Violations  []*rules.Ob `json:"violations"`
	Known       []*rules.Ob `json:"known_findings,omitempty"`
	FloorFails  []string    `json:"floor_failures,omitempty"`
	Obligations []*rules.Ob `json:"obligations"`
	Configs     []string    `json:"configurations"`
	Files       []string    `json:"files_analysed"`
}

type buildCfg struct {
	name string
	opt  load.Options
}

func configs(tier string) []buildCfg {
	base := []buildCfg{{"default", load.Options{}}}
	if tier != "thorough" {
		return base
	}
	base = append(base,
		buildCfg{"linux/386", load.Options{GOOS: "linux", GOARCH: "386"}},
		buildCfg{"windows/amd64", load.Options{GOOS: "windows", GOARCH: "amd64"}},
		buildCfg{"darwin/arm64", load.Options{GOOS: "darwin", GOARCH: "arm64"}},
		buildCfg{"tag:verif", load.Options{Tags: []string{"verif"}}},
	)
	return base
}

// analyse runs the units a property needs on one loaded program.
func analyse(p *load.Program, prop *rules.Prop, tier rules.Tier, cache map[string]*rules.UnitResult) (*rules.Col, rules.Stats) {
	col := rules.NewCol()
	var st rules.Stats
	r := rules.NewRoles(p)
	for _, miss := range r.Missing {
		col.Unproven(prop.ID+".ANCHOR", "anchor:"+miss, p.Position(0), "anchor not found in the package: "+miss, nil)
	}
	for _, u := range prop.Units {
		fn := rules.Units[u]
		if fn == nil {
			col.Unproven(prop.ID+".ENGINE", "unit:"+u, p.Position(0), "analysis unit not available", nil)
			continue
		}
		res := cache[u]
		if res == nil {
			res = fn(p, r, tier)
			if cache != nil {
				cache[u] = res
			}
		}
		col.Merge(res.Col)
		st.Merge(&res.Stats)
		for _, pr := range res.Stats.Problems {
			col.Unproven(prop.ID+".ENGINE", "unit:"+u, p.Position(0), "the engine lost precision or hit a bound: "+pr, nil)
		}
	}
	return col, st
}

func check(args []string) {
	fs := flag.NewFlagSet("check", flag.ExitOnError)
	propID := fs.String("prop", "", "property id (or a comma-separated list; units are shared)")
	tierName := fs.String("tier", "", "quick|thorough")
	dir := fs.String("dir", "/repo", "repository")
	verbose := fs.Bool("v", false, "print all obligations")
	overlayFile := fs.String("overlay", "", "JSON file mapping absolute file names to replacement contents (self-test only)")
	fs.StringVar(&outDir, "outdir", verifDir, "directory receiving evidence/ and reports/")
	fs.Parse(args)
	var overlay map[string][]byte
	if *overlayFile != "" {
		b, err := os.ReadFile(*overlayFile)
		if err != nil {
			fmt.Fprintln(os.Stderr, err)
			os.Exit(2)
		}
		var m map[string]string
		if err := json.Unmarshal(b, &m); err != nil {
			fmt.Fprintln(os.Stderr, err)
			os.Exit(2)
		}
		overlay = map[string][]byte{}
		for k, v := range m {
			overlay[k] = []byte(v)
		}
	}
	if *tierName == "" {
		*tierName = os.Getenv("VERIF_TIER")
	}
	if *tierName != "thorough" {
		*tierName = "quick"
	}
	seed := 0
	if s := os.Getenv("VERIF_SEED"); s != "" {
		if v, err := strconv.Atoi(s); err == nil {
			seed = v
		}
	}
	if strings.Contains(*propID, ",") {
		checkMany(strings.Split(*propID, ","), *tierName, *dir, overlay, seed)
		return
	}
	prop := rules.Props[*propID]
	if prop == nil {
		fmt.Fprintf(os.Stderr, "unknown or unclaimed property %q\n", *propID)
		os.Exit(2)
	}
	start := time.Now()
	tier := rules.Tier{Name: *tierName, Depth: 8}
	if *tierName == "thorough" {
		tier.Depth = 12
	}
	defer func() {
		if r := recover(); r != nil {
			fmt.Fprintf(os.Stderr, "internal error: %v\n", r)
			fmt.Printf("VIOLATION property=%s replay=%s\n", prop.ID, filepath.Join(outDir, "reports", prop.ID+"."+*tierName+".json"))
			os.Exit(1)
		}
	}()
	total := rules.NewCol()
	var stats rules.Stats
	var cfgNames []string
	var files []string
	for i, bc := range configs(*tierName) {
		// every configuration is a program of its own: interned terms carry pointers into the
		// program they were built for (functions, types) and must not leak into the next one
		eng.ResetInterning()
		opt := bc.opt
		opt.Dir = *dir
		opt.Overlay = overlay
		p, err := load.Load(opt)
		if err != nil {
			if i == 0 {
				fmt.Fprintf(os.Stderr, "cannot load %s: %v\n", *dir, err)
				total.Unproven(prop.ID+".LOAD", "load:"+bc.name, tokenPos(), "the package does not load/type-check: "+err.Error(), nil)
				break
			}
			// an alternative configuration that cannot be loaded (missing cross toolchain data) is recorded, not fatal
			cfgNames = append(cfgNames, bc.name+" (not loadable: "+firstLine(err.Error())+")")
			continue
		}
		cfgNames = append(cfgNames, bc.name)
		if i == 0 {
			files = p.Names
		}
		col, st := analyse(p, prop, tier, map[string]*rules.UnitResult{})
		total.Merge(col)
		stats.Merge(&st)
	}
	if f := os.Getenv("FLYTSA_HEAPPROF"); f != "" {
		runtime.GC()
		if w, err := os.Create(f); err == nil {
			pprof.WriteHeapProfile(w)
			w.Close()
		}
	}
	var extra map[string]any
	if *tierName == "thorough" && overlay == nil {
		// positive/negative self-validation on overlays of the current tree (informational)
		rows, killed, survived, silent, alarms, stale := runBattery(prop, *dir, rules.Tier{Name: "quick", Depth: 8})
		extra = map[string]any{
			"self_validation": map[string]any{
				"seeded_violations_killed": killed, "seeded_violations_survived": survived,
				"benign_variants_silent": silent, "benign_variants_alarmed": alarms, "stale_entries": stale,
				"rows": rows,
				"note": "catalogue entries targeting this property, applied as overlays on the current sources; informational, never changes the exit status",
			},
		}
		fmt.Printf("self-validation: %d seeded violations killed, %d survived; %d benign variants silent, %d alarmed; %d stale\n", killed, survived, silent, alarms, stale)
		if survived > 0 || alarms > 0 {
			fmt.Println("WARNING: the self-validation battery has survivors or false alarms (see evidence.coverage.self_validation)")
		}
	}
	finish(prop, *tierName, seed, total, stats, cfgNames, files, start, *verbose, extra)
}

// checkMany evaluates several properties on the default configuration sharing
// the analysis units (used by the self-test battery); prints one JSON line.
func checkMany(ids []string, tierName, dir string, overlay map[string][]byte, seed int) {
	out := map[string][]string{}
	p, err := load.Load(load.Options{Dir: dir, Overlay: overlay})
	if err != nil {
		for _, id := range ids {
			out[id] = []string{"LOAD"}
		}
		b, _ := json.Marshal(out)
		fmt.Println(string(b))
		return
	}
	tier := rules.Tier{Name: tierName, Depth: 8}
	cache := map[string]*rules.UnitResult{}
	known := readKnownFindings()
	for _, id := range ids {
		prop := rules.Props[id]
		if prop == nil {
			out[id] = []string{"UNCLAIMED"}
			continue
		}
		col, _ := analyse(p, prop, tier, cache)
		obs := col.ForProp(id)
		set := map[string]bool{}
		for _, o := range obs {
			if len(o.Fails) == 0 {
				continue
			}
			isKnown := false
			for _, kf := range known {
				if kf.Prop == id && kf.Key == o.Key() {
					isKnown = true
				}
			}
			if !isKnown {
				set[o.Rule] = true
			}
		}
		for _, fl := range prop.Floors {
			n := 0
			for _, o := range obs {
				if rules.MatchKey(fl.Pattern, o.Key()) {
					n += len(o.Sites)
					if len(o.Sites) == 0 && o.Instances > 0 {
						n++
					}
				}
			}
			if n < fl.Min {
				set["FLOOR:"+fl.Pattern] = true
			}
		}
		var fails []string
		for k := range set {
			fails = append(fails, k)
		}
		sort.Strings(fails)
		out[id] = fails
	}
	b, _ := json.Marshal(out)
	fmt.Println(string(b))
}

func firstLine(s string) string {
	if i := strings.Index(s, "\n"); i >= 0 {
		return s[:i]
	}
	return s
}

func finish(prop *rules.Prop, tier string, seed int, total *rules.Col, stats rules.Stats, cfgNames, files []string, start time.Time, verbose bool, extra map[string]any) {
	obs := total.ForProp(prop.ID)
	known := readKnownFindings()
	var viol, knownHit []*rules.Ob
	discharged := 0
	for _, o := range obs {
		if len(o.Fails) == 0 {
			discharged++
			continue
		}
		isKnown := false
		for _, kf := range known {
			if kf.Prop == prop.ID && kf.Key == o.Key() {
				isKnown = true
				fmt.Printf("KNOWN-FINDING: property=%s %s %s\n", prop.ID, o.Key(), kf.Text)
			}
		}
		if isKnown {
			knownHit = append(knownHit, o)
		} else {
			viol = append(viol, o)
		}
	}
	// floors
	var floorFails []string
	for _, fl := range prop.Floors {
		n := 0
		for _, o := range obs {
			if rules.MatchKey(fl.Pattern, o.Key()) {
				n += len(o.Sites)
				if len(o.Sites) == 0 && o.Instances > 0 {
					n++
				}
			}
		}
		if n < fl.Min {
			floorFails = append(floorFails, fmt.Sprintf("floor %q (%s): %d matching sites, need >= %d — the rule no longer finds its construct (vacuous pass refused)", fl.Pattern, fl.Why, n, fl.Min))
		}
	}
	verdict := "HOLDS"
	if len(viol) > 0 || len(floorFails) > 0 {
		verdict = "VIOLATION"
	}
	rep := report{Property: prop.ID, Tier: tier, Verdict: verdict, Violations: viol, Known: knownHit, FloorFails: floorFails, Obligations: obs, Configs: cfgNames, Files: files}
	os.MkdirAll(filepath.Join(outDir, "reports"), 0o755)
	repPath := filepath.Join(outDir, "reports", prop.ID+"."+tier+".json")
	writeJSON(repPath, rep)

	// evidence
	instances := 0
	var samples []any
	nontrivial := 0
	for _, o := range obs {
		instances += o.Instances
		if o.Instances > 0 {
			nontrivial++
		}
	}
	for i, o := range obs {
		if i < 40 {
			v := "discharged"
			if len(o.Fails) > 0 {
				v = strings.ToLower(o.Fails[0].Kind)
			}
			samples = append(samples, map[string]any{"rule": o.Rule, "construct": o.Construct, "instances": o.Instances, "sites": o.Sites, "verdict": v})
		}
	}
	cov := map[string]any{
		"explanation":         prop.Explanation,
		"rule":                prop.CaseRule,
		"obligations":         len(obs),
		"discharged":          discharged,
		"evaluations":         instances,
		"distinct_nontrivial": nontrivial,
		"samples":             samples,
		"states":              stats.States,
		"transitions":         stats.Transitions,
		"abstract_events":     stats.Events,
		"return_instances":    stats.Returns,
		"explorations":        stats.Runs,
		"functions_analysed":  stats.Functions,
		"configurations":      cfgNames,
		"files_analysed":      files,
		"floors_checked":      len(prop.Floors),
		"floor_failures":      floorFails,
		"known_findings":      len(knownHit),
		"exhaustive":          true,
		"checker_cmd":         fmt.Sprintf("/verif/bin/flytsa check -prop %s -tier %s", prop.ID, tier),
		"trusted_base":        []string{"go/types, go/ssa (golang.org/x/tools v0.29.0)", "the flytsa analyser"},
	}
	for k, v := range extra {
		cov[k] = v
	}
	ev := map[string]any{
		"property_id": prop.ID,
		"tier":        tier,
		"seed":        seed,
		"level":       "other",
		"coverage":    cov,
		"assumptions": prop.Assumptions,
		"wall_s":      time.Since(start).Seconds(),
		"violations":  len(viol) + len(floorFails),
	}
	os.MkdirAll(filepath.Join(outDir, "evidence"), 0o755)
	writeJSON(filepath.Join(outDir, "evidence", prop.ID+".json"), ev)

	fmt.Printf("%s %s: %d obligations, %d discharged, %d violated/unproven, %d known; %d instances; %d abstract states; %.1fs\n",
		prop.ID, tier, len(obs), discharged, len(viol), len(knownHit), instances, stats.States, time.Since(start).Seconds())
	if verbose {
		for _, o := range obs {
			st := "ok  "
			if len(o.Fails) > 0 {
				st = "FAIL"
			}
			fmt.Printf("  %s %-10s %-55s n=%-7d %s\n", st, o.Rule, o.Construct, o.Instances, strings.Join(o.Sites, " "))
		}
	}
	for _, ff := range floorFails {
		fmt.Println("  " + ff)
	}
	printFails(viol)
	if verdict == "VIOLATION" {
		fmt.Printf("VIOLATION property=%s replay=%s\n", prop.ID, repPath)
		os.Exit(1)
	}
}

func printFails(viol []*rules.Ob) {
	sort.SliceStable(viol, func(i, j int) bool { return viol[i].Key() < viol[j].Key() })
	for _, o := range viol {
		for _, f := range o.Fails {
			fmt.Printf("  %s %s @ %s\n      %s: %s\n", f.Kind, o.Rule, o.Construct, f.Pos, f.Msg)
			if n := len(f.Path); n > 0 {
				lo := 0
				if n > 12 {
					lo = n - 12
				}
				fmt.Printf("      path (last %d steps): %s\n", n-lo, strings.Join(f.Path[lo:], " > "))
			}
		}
	}
}

func writeJSON(path string, v any) {
	b, err := json.MarshalIndent(v, "", " ")
	if err != nil {
		fmt.Fprintln(os.Stderr, "cannot encode", path, err)
		os.Exit(2)
	}
	if err := os.WriteFile(path, append(b, '\n'), 0o644); err != nil {
		fmt.Fprintln(os.Stderr, "cannot write", path, err)
		os.Exit(2)
	}
}

// explain prints a stored report.
func explain(args []string) {
	if len(args) < 1 {
		fmt.Fprintln(os.Stderr, "usage: flytsa explain <report.json>")
		os.Exit(2)
	}
	b, err := os.ReadFile(args[0])
	if err != nil {
		fmt.Fprintln(os.Stderr, err)
		os.Exit(2)
	}
	var rep report
	if err := json.Unmarshal(b, &rep); err != nil {
		fmt.Fprintln(os.Stderr, err)
		os.Exit(2)
	}
	fmt.Printf("property %s, tier %s: %s (stored report)\n", rep.Property, rep.Tier, rep.Verdict)
	for _, ff := range rep.FloorFails {
		fmt.Println("  " + ff)
	}
	printFails(rep.Violations)
	fmt.Println("re-running the check on the current tree:")
	check([]string{"-prop", rep.Property, "-tier", rep.Tier})
}
