package main

import (
	"flag"
	"fmt"
	"go/token"
	"os"
	"runtime/debug"
	"runtime/pprof"
	"strings"

	"flytsa/internal/eng"
	"flytsa/internal/load"
	"flytsa/internal/rules"

	"golang.org/x/tools/go/ssa"
)

func main() {
	// the analyses allocate many small, short-lived objects: collect less often
	debug.SetGCPercent(400)
	if len(os.Args) < 2 {
		fmt.Fprintln(os.Stderr, "usage: flytsa <check|explain|dump> ...")
		os.Exit(2)
	}
	switch os.Args[1] {
	case "check":
		check(os.Args[2:])
	case "explain":
		explain(os.Args[2:])
	case "dump":
		dump(os.Args[2:])
	case "dbgrun":
		dbgrun(os.Args[2:])
	default:
		fmt.Fprintln(os.Stderr, "unknown command", os.Args[1])
		os.Exit(2)
	}
}

func dbgrun(args []string) {
	fs := flag.NewFlagSet("dbgrun", flag.ExitOnError)
	dir := fs.String("dir", "/repo", "repository")
	all := fs.Bool("all", false, "print discharged obligations too")
	fs.BoolVar(&rules.DebugStates, "states", false, "print state counts")
	prof := fs.String("cpuprofile", "", "write a CPU profile")
	fs.StringVar(&rules.DebugFn, "keyfn", "", "print state keys at this function's block")
	fs.IntVar(&rules.DebugBlock, "keyblock", 0, "block index for -keyfn")
	fs.Parse(args)
	p, err := load.Load(load.Options{Dir: *dir})
	if err != nil {
		fmt.Fprintln(os.Stderr, err)
		os.Exit(2)
	}
	if *prof != "" {
		f, _ := os.Create(*prof)
		pprof.StartCPUProfile(f)
		defer pprof.StopCPUProfile()
	}
	r := rules.NewRoles(p)
	fmt.Println("missing anchors:", r.Missing)
	res := rules.AnalyzeRun(p, r, 4)
	fmt.Printf("stats: %+v\n", res.Stats)
	for _, o := range res.Col.List() {
		if len(o.Fails) == 0 {
			if *all {
				fmt.Printf("ok   %-8s %-50s n=%d %v\n", o.Rule, o.Construct, o.Instances, o.Sites)
			}
			continue
		}
		fmt.Printf("FAIL %-8s %-50s n=%d\n", o.Rule, o.Construct, o.Instances)
		for _, f := range o.Fails {
			fmt.Printf("      %s %s: %s\n", f.Kind, f.Pos, f.Msg)
			if len(f.Path) > 0 {
				n := len(f.Path)
				lo := 0
				if n > 14 {
					lo = n - 14
				}
				fmt.Printf("        path: ...%s\n", strings.Join(f.Path[lo:], " > "))
			}
		}
	}
}

func tokenPos() token.Position { return token.Position{} }

type traceMon struct{}
type traceState struct{}

func (traceState) Key() string                                   { return "" }
func (t traceState) Rename(func(*eng.Term) *eng.Term) eng.MState { return t }
func (traceState) Terms() []*eng.Term                            { return nil }
func (traceMon) Name() string                                    { return "trace" }
func (traceMon) Init() eng.MState                                { return traceState{} }
func (traceMon) OnEvent(c *eng.Ctx, ms eng.MState, ev *eng.Event) eng.MState {
	var parts []string
	for _, a := range ev.Args {
		parts = append(parts, a.Pretty())
	}
	var res []string
	for _, a := range ev.Results {
		res = append(res, a.Pretty())
	}
	extra := ""
	if ev.Cond != nil {
		extra = fmt.Sprintf(" cond=%s taken=%v decided=%v", ev.Cond.Pretty(), ev.Taken, ev.Decided)
	}
	if ev.Addr != nil {
		extra += " addr=" + ev.Addr.Pretty()
	}
	if ev.Val != nil {
		extra += " val=" + ev.Val.Pretty()
	}
	fmt.Printf("  [%s] %s %s(%s) -> %s%s  @%d\n", ev.Kind, ev.Class, "", strings.Join(parts, ", "), strings.Join(res, ", "), extra, ev.Pos.Line)
	return ms
}

func dump(args []string) {
	fs := flag.NewFlagSet("dump", flag.ExitOnError)
	root := fs.String("root", "Run", "root function (Func or Type.Method)")
	dir := fs.String("dir", "/repo", "repository")
	trace := fs.Bool("trace", false, "print events")
	dbg := fs.Int("dbgblock", -1, "print state keys at this root block")
	fs.Parse(args)
	p, err := load.Load(load.Options{Dir: *dir})
	if err != nil {
		fmt.Fprintln(os.Stderr, err)
		os.Exit(2)
	}
	var fn *ssa.Function
	if i := strings.Index(*root, "."); i >= 0 {
		fn = p.Method((*root)[:i], (*root)[i+1:])
	} else {
		fn = p.Func(*root)
	}
	if fn == nil {
		fmt.Fprintln(os.Stderr, "no such function")
		os.Exit(2)
	}
	cfg := eng.Config{Prog: p.Prog, Pkg: p.SSA, Fset: p.Fset, Root: fn, Debug: *dbg >= 0, DebugBlock: *dbg}
	if *trace {
		cfg.Monitors = []eng.Monitor{traceMon{}}
	}
	e := eng.New(cfg)
	e.Run()
	fmt.Printf("states=%d transitions=%d forks=%d events=%d returns=%d\n", e.States, e.Trans, e.Forks, e.Events, len(e.Returns))
	for _, r := range e.Returns {
		var vs []string
		for _, v := range r.Vals {
			vs = append(vs, v.Pretty())
		}
		fmt.Printf("RETURN @%d panic=%v: %s\n   facts: %s\n", r.Pos.Line, r.Panic, strings.Join(vs, " , "), strings.Join(r.State.Facts().List(), " ; "))
	}
	for _, pr := range e.SortedProblems() {
		fmt.Printf("PROBLEM %s: %s @%s:%d\n", pr.Kind, pr.Msg, pr.Pos.Filename, pr.Pos.Line)
	}
}
