package main

import (
	"encoding/json"
	"fmt"
	"os"
	"path/filepath"
	"sort"
	"strings"

	"flytsa/internal/eng"
	"flytsa/internal/load"
	"flytsa/internal/rules"
)

// The self-validation battery (thorough tier): seeded violations and benign
// variants of the catalogue under /verif/sa/selftest are applied as in-memory
// overlays on the CURRENT sources of /repo and analysed with the same rules.
// The results are reported in the evidence (kill matrix); they never change
// the exit status of a check, which is decided by the real tree alone.

type catEdit struct {
	File   string `json:"file"`
	Old    string `json:"old"`
	New    string `json:"new"`
	Create bool   `json:"create"`
}
type catEntry struct {
	ID       string    `json:"id"`
	Property string    `json:"property"`
	Expected string    `json:"expected_rule"`
	Suite    string    `json:"suite"`
	Edits    []catEdit `json:"edits"`
	Overlay  string    `json:"overlay_file"`
	Benign   bool      `json:"-"`
}

func loadCatalogue() []catEntry {
	var out []catEntry
	read := func(name, key string, benign bool) {
		b, err := os.ReadFile(filepath.Join(verifDir, "sa", "selftest", name))
		if err != nil {
			return
		}
		var raw map[string]json.RawMessage
		if json.Unmarshal(b, &raw) != nil {
			return
		}
		var es []catEntry
		if json.Unmarshal(raw[key], &es) != nil {
			return
		}
		for _, e := range es {
			e.Benign = benign
			out = append(out, e)
		}
	}
	read("seed_mutants.json", "mutants", false)
	read("benign_variants.json", "variants", true)
	read("agent_mutants.json", "mutants", false)
	read("base_mutants.json", "mutants", false)
	return out
}

func overlayFor(dir string, e catEntry) (map[string][]byte, string) {
	files := map[string]string{}
	if e.Overlay != "" {
		// a whole-file overlay over the repository (changes written against a refactored base)
		b, err := os.ReadFile(e.Overlay)
		if err != nil {
			return nil, "stale: cannot read " + e.Overlay
		}
		var m map[string]string
		if json.Unmarshal(b, &m) != nil {
			return nil, "stale: bad overlay file " + e.Overlay
		}
		out := map[string][]byte{}
		for k, v := range m {
			out[filepath.Join(dir, filepath.Base(k))] = []byte(v)
		}
		return out, ""
	}
	for _, ed := range e.Edits {
		path := filepath.Join(dir, ed.File)
		src, ok := files[path]
		if !ok {
			b, err := os.ReadFile(path)
			if err != nil {
				if ed.Create || ed.Old == "" {
					files[path] = ed.New // a file the change adds to the package
					continue
				}
				return nil, "cannot read " + path
			}
			src = string(b)
		}
		if strings.Count(src, ed.Old) != 1 {
			return nil, fmt.Sprintf("stale: anchored text occurs %d times in %s", strings.Count(src, ed.Old), ed.File)
		}
		files[path] = strings.Replace(src, ed.Old, ed.New, 1)
	}
	out := map[string][]byte{}
	for k, v := range files {
		out[k] = []byte(v)
	}
	return out, ""
}

type batteryRow struct {
	ID       string   `json:"id"`
	Kind     string   `json:"kind"`
	Suite    string   `json:"suite_verdict,omitempty"`
	Expected string   `json:"expected_rule,omitempty"`
	Outcome  string   `json:"outcome"`
	Rules    []string `json:"rules_fired,omitempty"`
}

// runBattery analyses the catalogue entries targeting prop.
func runBattery(prop *rules.Prop, dir string, tier rules.Tier) (rows []batteryRow, killed, survived, silent, alarms, stale int) {
	known := readKnownFindings()
	for _, e := range loadCatalogue() {
		if e.Property != prop.ID {
			continue
		}
		row := batteryRow{ID: e.ID, Kind: "seeded violation", Suite: e.Suite, Expected: e.Expected}
		if e.Benign {
			row.Kind = "benign variant"
		}
		ov, why := overlayFor(dir, e)
		if ov == nil {
			row.Outcome = why
			stale++
			rows = append(rows, row)
			continue
		}
		eng.ResetInterning()
		p, err := load.Load(load.Options{Dir: dir, Overlay: ov})
		if err != nil {
			row.Outcome = "does not compile"
			rows = append(rows, row)
			continue
		}
		col, _ := analyse(p, prop, tier, map[string]*rules.UnitResult{})
		set := map[string]bool{}
		obs := col.ForProp(prop.ID)
		for _, o := range obs {
			if len(o.Fails) == 0 {
				continue
			}
			isKnown := false
			for _, kf := range known {
				if kf.Prop == prop.ID && kf.Key == o.Key() {
					isKnown = true
				}
			}
			if !isKnown {
				set[o.Rule] = true
			}
		}
		for _, fl := range prop.Floors {
			n := 0
			for _, o := range obs {
				if rules.MatchKey(fl.Pattern, o.Key()) {
					n += len(o.Sites)
					if len(o.Sites) == 0 && o.Instances > 0 {
						n++
					}
				}
			}
			if n < fl.Min {
				set["FLOOR"] = true
			}
		}
		for k := range set {
			row.Rules = append(row.Rules, k)
		}
		sort.Strings(row.Rules)
		flagged := len(row.Rules) > 0
		switch {
		case e.Benign && flagged:
			row.Outcome = "ALARM (false alarm of the checker)"
			alarms++
		case e.Benign:
			row.Outcome = "silent"
			silent++
		case flagged:
			row.Outcome = "killed"
			killed++
		default:
			row.Outcome = "survived this property's rules"
			survived++
		}
		rows = append(rows, row)
	}
	eng.ResetInterning()
	return
}
