package main

import (
	"encoding/json"
	"fmt"
	"go/ast"
	"go/token"
	"go/types"
	"os"
	"path/filepath"
	"sort"
	"strings"

	"golang.org/x/tools/go/packages"
)

// fourthSet: type-directed single-point mutants that keep the program compiling by construction:
//   - drop-operand: `a && b` / `a || b` replaced by either operand;
//   - wrong-method: a method call replaced by a call of another method of the same receiver type with
//     the identical signature (Lock/RLock, Unlock/RUnlock, getters of the same result type, ...);
//   - wrong-field: a field selector replaced by another field of the same struct with the identical type;
//   - wrong-const / wrong-func: a package-level constant or function identifier replaced by another one
//     of the identical type;
//   - return-zero: one non-error result of a return statement replaced by the zero value of its type;
//   - drop-else: the else branch of an if statement removed;
//   - cond-true / cond-false: an if condition replaced by a constant.
func fourthSet(dir string) {
	cfg := &packages.Config{Mode: packages.LoadSyntax, Dir: dir, Env: append(os.Environ(), "GOFLAGS=-mod=mod", "GOPROXY=off", "GOSUMDB=off", "GOWORK=off", "GOTOOLCHAIN=local")}
	pkgs, err := packages.Load(cfg, ".")
	if err != nil || len(pkgs) != 1 || len(pkgs[0].Errors) > 0 {
		panic(fmt.Sprint("load: ", err, pkgs))
	}
	pkg := pkgs[0]
	info := pkg.TypesInfo
	var out []mutant
	// package-level constants and functions by type
	var consts []*types.Const
	var funcs []*types.Func
	sc := pkg.Types.Scope()
	for _, n := range sc.Names() {
		switch o := sc.Lookup(n).(type) {
		case *types.Const:
			consts = append(consts, o)
		case *types.Func:
			funcs = append(funcs, o)
		}
	}
	zero := func(t types.Type) string {
		switch u := t.Underlying().(type) {
		case *types.Basic:
			switch {
			case u.Info()&types.IsString != 0:
				return `""`
			case u.Info()&types.IsBoolean != 0:
				return "false"
			case u.Info()&types.IsNumeric != 0:
				return "0"
			}
		case *types.Pointer, *types.Slice, *types.Map, *types.Chan, *types.Signature, *types.Interface:
			return "nil"
		case *types.Struct:
			if n, ok := t.(*types.Named); ok && n.Obj().Pkg() == pkg.Types {
				return n.Obj().Name() + "{}"
			}
		}
		return ""
	}
	for fi, af := range pkg.Syntax {
		fname := pkg.CompiledGoFiles[fi]
		if strings.HasSuffix(fname, "_test.go") {
			continue
		}
		src, _ := os.ReadFile(fname)
		base := filepath.Base(fname)
		off := func(p token.Pos) int { return pkg.Fset.Position(p).Offset }
		text := func(n ast.Node) string { return string(src[off(n.Pos()):off(n.End())]) }
		for _, d := range af.Decls {
			fd, ok := d.(*ast.FuncDecl)
			if !ok || fd.Body == nil {
				continue
			}
			fn := fd.Name.Name
			if fd.Recv != nil && len(fd.Recv.List) == 1 {
				t := fd.Recv.List[0].Type
				if s, ok := t.(*ast.StarExpr); ok {
					t = s.X
				}
				if ix, ok := t.(*ast.IndexExpr); ok {
					t = ix.X
				}
				if id, ok := t.(*ast.Ident); ok {
					fn = id.Name + "." + fn
				}
			}
			add := func(op string, s, e token.Pos, repl string) {
				st, en := off(s), off(e)
				out = append(out, mutant{File: base, Start: st, End: en, New: repl, Op: op, Line: pkg.Fset.Position(s).Line, Func: fn, Old: string(src[st:en])})
			}
			// result types of the enclosing function literal / declaration for return-zero
			var sigStack []*types.Signature
			if o, ok := info.Defs[fd.Name].(*types.Func); ok {
				sigStack = append(sigStack, o.Type().(*types.Signature))
			}
			var walk func(n ast.Node)
			walk = func(n ast.Node) {
				ast.Inspect(n, func(c ast.Node) bool {
					switch x := c.(type) {
					case *ast.FuncLit:
						if s, ok := info.TypeOf(x).(*types.Signature); ok {
							sigStack = append(sigStack, s)
							walk(x.Body)
							sigStack = sigStack[:len(sigStack)-1]
							return false
						}
					case *ast.BinaryExpr:
						if x.Op == token.LAND || x.Op == token.LOR {
							add("drop-operand-right", x.Pos(), x.End(), text(x.X))
							add("drop-operand-left", x.Pos(), x.End(), text(x.Y))
						}
					case *ast.IfStmt:
						if x.Else != nil {
							add("drop-else", x.Body.End(), x.Else.End(), "")
						}
						if x.Init == nil {
							add("cond-true", x.Cond.Pos(), x.Cond.End(), "true")
							add("cond-false", x.Cond.Pos(), x.Cond.End(), "false")
						}
					case *ast.SelectorExpr:
						sel := info.Selections[x]
						if sel == nil {
							return true
						}
						switch sel.Kind() {
						case types.MethodVal:
							m := sel.Obj().(*types.Func)
							ms := types.NewMethodSet(sel.Recv())
							if _, isPtr := sel.Recv().(*types.Pointer); !isPtr {
								ms = types.NewMethodSet(types.NewPointer(sel.Recv()))
							}
							n := 0
							for i := 0; i < ms.Len() && n < 3; i++ {
								o := ms.At(i).Obj().(*types.Func)
								if o == m || o.Name() == m.Name() || (!o.Exported() && o.Pkg() != pkg.Types) {
									continue
								}
								// compare signatures without receivers
								s1 := m.Type().(*types.Signature)
								s2 := o.Type().(*types.Signature)
								if !types.Identical(types.NewSignatureType(nil, nil, nil, s1.Params(), s1.Results(), s1.Variadic()), types.NewSignatureType(nil, nil, nil, s2.Params(), s2.Results(), s2.Variadic())) {
									continue
								}
								n++
								add("wrong-method "+m.Name()+"->"+o.Name(), x.Sel.Pos(), x.Sel.End(), o.Name())
							}
						case types.FieldVal:
							f := sel.Obj().(*types.Var)
							rt := sel.Recv()
							if p, ok := rt.Underlying().(*types.Pointer); ok {
								rt = p.Elem()
							}
							st, ok := rt.Underlying().(*types.Struct)
							if !ok {
								return true
							}
							n := 0
							for i := 0; i < st.NumFields() && n < 2; i++ {
								g := st.Field(i)
								if g == f || g.Name() == f.Name() || g.Embedded() || !types.Identical(g.Type(), f.Type()) {
									continue
								}
								if !g.Exported() && g.Pkg() != pkg.Types {
									continue
								}
								n++
								add("wrong-field "+f.Name()+"->"+g.Name(), x.Sel.Pos(), x.Sel.End(), g.Name())
							}
						}
					case *ast.Ident:
						switch o := info.Uses[x].(type) {
						case *types.Const:
							if o.Pkg() != pkg.Types || o.Parent() != sc {
								return true
							}
							n := 0
							for _, w := range consts {
								if w == o || !types.Identical(w.Type(), o.Type()) || n >= 2 {
									continue
								}
								n++
								add("wrong-const "+o.Name()+"->"+w.Name(), x.Pos(), x.End(), w.Name())
							}
						case *types.Func:
							if o.Pkg() != pkg.Types || o.Parent() != sc {
								return true
							}
							n := 0
							for _, w := range funcs {
								if w == o || !types.Identical(w.Type(), o.Type()) || n >= 2 {
									continue
								}
								n++
								add("wrong-func "+o.Name()+"->"+w.Name(), x.Pos(), x.End(), w.Name())
							}
						}
					case *ast.ReturnStmt:
						if len(sigStack) == 0 {
							return true
						}
						sig := sigStack[len(sigStack)-1]
						if sig.Results().Len() != len(x.Results) {
							return true
						}
						for i, r := range x.Results {
							t := sig.Results().At(i).Type()
							if types.Identical(t, types.Universe.Lookup("error").Type()) {
								continue
							}
							z := zero(t)
							if z == "" || text(r) == z {
								continue
							}
							if tv, ok := info.Types[r]; ok && tv.IsNil() {
								continue
							}
							add("return-zero", r.Pos(), r.End(), z)
						}
					}
					return true
				})
			}
			walk(fd.Body)
		}
	}
	sort.SliceStable(out, func(i, j int) bool {
		if out[i].File != out[j].File {
			return out[i].File < out[j].File
		}
		if out[i].Start != out[j].Start {
			return out[i].Start < out[j].Start
		}
		return out[i].Op < out[j].Op
	})
	var uniq []mutant
	for i, m := range out {
		if i > 0 && m.File == out[i-1].File && m.Start == out[i-1].Start && m.End == out[i-1].End && m.New == out[i-1].New {
			continue
		}
		uniq = append(uniq, m)
	}
	for i := range uniq {
		op := strings.NewReplacer(" ", "", ">", "", "-", "").Replace(uniq[i].Op)
		uniq[i].ID = fmt.Sprintf("x%04d-%s-%d-%s", i, strings.TrimSuffix(uniq[i].File, ".go"), uniq[i].Line, op)
	}
	enc := json.NewEncoder(os.Stdout)
	enc.SetIndent("", " ")
	if err := enc.Encode(uniq); err != nil {
		panic(err)
	}
}
