// Command mutgen lists generic single-point mutations of the non-test Go files of a
// package directory as byte-range replacements (JSON on stdout). It is a tool for
// testing the checker (tools/mutsweep.py), not part of any check.
package main

import (
	"encoding/json"
	"flag"
	"fmt"
	"go/ast"
	"go/parser"
	"go/token"
	"go/types"
	"os"
	"path/filepath"
	"sort"
	"strings"

	"golang.org/x/tools/go/packages"
)

type mutant struct {
	ID    string `json:"id"`
	File  string `json:"file"`
	Start int    `json:"start"`
	End   int    `json:"end"`
	New   string `json:"new"`
	Op    string `json:"op"`
	Line  int    `json:"line"`
	Func  string `json:"func"`
	Old   string `json:"old"`
}

func main() {
	dir := flag.String("dir", "/repo", "package directory")
	second := flag.Bool("second", false, "second operator set: swapped adjacent statements, duplicated calls/sends")
	third := flag.Bool("third", false, "third operator set (needs type information): a local variable or parameter replaced by another one of the identical type")
	fourth := flag.Bool("fourth", false, "fourth operator set (needs type information): dropped operands of && and ||, a method / field / constant / function replaced by a sibling of the identical type, zero-valued results, dropped else branches, constant conditions")
	flag.Parse()
	if *fourth {
		fourthSet(*dir)
		return
	}
	if *third {
		thirdSet(*dir)
		return
	}
	files, _ := filepath.Glob(filepath.Join(*dir, "*.go"))
	sort.Strings(files)
	var out []mutant
	for _, f := range files {
		if strings.HasSuffix(f, "_test.go") {
			continue
		}
		src, err := os.ReadFile(f)
		if err != nil {
			panic(err)
		}
		fset := token.NewFileSet()
		af, err := parser.ParseFile(fset, f, src, 0)
		if err != nil {
			panic(err)
		}
		base := filepath.Base(f)
		off := func(p token.Pos) int { return fset.Position(p).Offset }
		add := func(fn string, op string, s, e token.Pos, repl string) {
			st, en := off(s), off(e)
			old := string(src[st:en])
			if old == repl {
				return
			}
			out = append(out, mutant{File: base, Start: st, End: en, New: repl, Op: op, Line: fset.Position(s).Line, Func: fn, Old: old})
		}
		for _, d := range af.Decls {
			fd, ok := d.(*ast.FuncDecl)
			if !ok || fd.Body == nil {
				continue
			}
			fn := fd.Name.Name
			if fd.Recv != nil && len(fd.Recv.List) == 1 {
				t := fd.Recv.List[0].Type
				if s, ok := t.(*ast.StarExpr); ok {
					t = s.X
				}
				if id, ok := t.(*ast.Ident); ok {
					fn = id.Name + "." + fn
				}
			}
			ast.Inspect(fd.Body, func(n ast.Node) bool {
				if !*second {
					return true
				}
				var list []ast.Stmt
				switch x := n.(type) {
				case *ast.BlockStmt:
					list = x.List
				case *ast.CaseClause:
					list = x.Body
				case *ast.CommClause:
					list = x.Body
				}
				simple := func(st ast.Stmt) bool {
					switch st.(type) {
					case *ast.ExprStmt, *ast.AssignStmt, *ast.IncDecStmt, *ast.DeferStmt, *ast.GoStmt, *ast.IfStmt, *ast.SendStmt:
						return true
					}
					return false
				}
				for i := 0; i+1 < len(list); i++ {
					a, b := list[i], list[i+1]
					if simple(a) && simple(b) {
						ta, tb := string(src[off(a.Pos()):off(a.End())]), string(src[off(b.Pos()):off(b.End())])
						add(fn, "swap-stmts", a.Pos(), b.End(), tb+"\n"+ta)
					}
				}
				for _, st := range list {
					switch y := st.(type) {
					case *ast.ExprStmt:
						if _, ok := y.X.(*ast.CallExpr); ok {
							t := string(src[off(y.Pos()):off(y.End())])
							add(fn, "dup-call", y.Pos(), y.End(), t+"\n"+t)
						}
					case *ast.AssignStmt:
						if y.Tok == token.ASSIGN {
							if _, ok := y.Rhs[0].(*ast.CallExpr); ok && len(y.Rhs) == 1 {
								t := string(src[off(y.Pos()):off(y.End())])
								add(fn, "dup-assign-call", y.Pos(), y.End(), t+"\n"+t)
							}
						}
					case *ast.SendStmt:
						t := string(src[off(y.Pos()):off(y.End())])
						add(fn, "dup-send", y.Pos(), y.End(), t+"\n"+t)
					}
				}
				return true
			})
			ast.Inspect(fd.Body, func(n ast.Node) bool {
				if *second {
					return false
				}
				switch x := n.(type) {
				case *ast.BinaryExpr:
					swap := map[token.Token][]string{
						token.EQL: {"!="}, token.NEQ: {"=="},
						token.LSS: {"<=", ">"}, token.LEQ: {"<"}, token.GTR: {">=", "<"}, token.GEQ: {">"},
						token.LAND: {"||"}, token.LOR: {"&&"},
						token.ADD: {"-"}, token.SUB: {"+"},
					}
					for _, r := range swap[x.Op] {
						if x.Op == token.ADD {
							// skip string concatenation
							if bl, ok := x.X.(*ast.BasicLit); ok && bl.Kind == token.STRING {
								continue
							}
							if bl, ok := x.Y.(*ast.BasicLit); ok && bl.Kind == token.STRING {
								continue
							}
						}
						add(fn, "binop "+x.Op.String()+"->"+r, x.OpPos, x.OpPos+token.Pos(len(x.Op.String())), r)
					}
				case *ast.IfStmt:
					add(fn, "negate-if", x.Cond.Pos(), x.Cond.End(), "!("+string(src[off(x.Cond.Pos()):off(x.Cond.End())])+")")
					if x.Else == nil && x.Init == nil {
						// drop the guarded block entirely
						add(fn, "drop-if", x.Pos(), x.End(), "")
					}
				case *ast.ExprStmt:
					if _, ok := x.X.(*ast.CallExpr); ok {
						add(fn, "drop-call", x.Pos(), x.End(), "")
					}
				case *ast.AssignStmt:
					if x.Tok == token.ASSIGN || x.Tok == token.ADD_ASSIGN {
						add(fn, "drop-assign", x.Pos(), x.End(), "")
					}
				case *ast.IncDecStmt:
					add(fn, "drop-incdec", x.Pos(), x.End(), "")
				case *ast.DeferStmt:
					add(fn, "drop-defer", x.Pos(), x.End(), "")
					add(fn, "undefer", x.Pos(), x.Call.Pos(), "")
				case *ast.GoStmt:
					add(fn, "ungo", x.Pos(), x.Call.Pos(), "")
				case *ast.BranchStmt:
					if x.Label == nil && (x.Tok == token.BREAK || x.Tok == token.CONTINUE) {
						add(fn, "drop-"+x.Tok.String(), x.Pos(), x.End(), "")
						if x.Tok == token.BREAK {
							add(fn, "break->continue", x.Pos(), x.End(), "continue")
						} else {
							add(fn, "continue->break", x.Pos(), x.End(), "break")
						}
					}
				case *ast.BasicLit:
					if x.Kind == token.INT {
						switch x.Value {
						case "0":
							add(fn, "int 0->1", x.Pos(), x.End(), "1")
						case "1":
							add(fn, "int 1->0", x.Pos(), x.End(), "0")
							add(fn, "int 1->2", x.Pos(), x.End(), "2")
						}
					}
					if x.Kind == token.STRING && len(x.Value) > 2 && !strings.Contains(x.Value, "%") && !strings.Contains(x.Value, " ") {
						add(fn, "string-const", x.Pos(), x.End(), x.Value[:len(x.Value)-1]+"_"+x.Value[len(x.Value)-1:])
					}
				case *ast.Ident:
					switch x.Name {
					case "true":
						add(fn, "true->false", x.Pos(), x.End(), "false")
					case "false":
						add(fn, "false->true", x.Pos(), x.End(), "true")
					}
				case *ast.ReturnStmt:
					// return ..., err  ->  return ..., nil
					if len(x.Results) >= 1 {
						last := x.Results[len(x.Results)-1]
						if id, ok := last.(*ast.Ident); ok && (id.Name == "err" || strings.HasSuffix(id.Name, "Err")) {
							add(fn, "return-err->nil", last.Pos(), last.End(), "nil")
						}
					}
				case *ast.CallExpr:
					// swap two adjacent arguments written with identical text kinds (identifiers)
					for i := 0; i+1 < len(x.Args); i++ {
						a, aok := x.Args[i].(*ast.Ident)
						b, bok := x.Args[i+1].(*ast.Ident)
						if aok && bok && a.Name != b.Name {
							add(fn, "swap-args", x.Args[i].Pos(), x.Args[i+1].End(), b.Name+", "+a.Name)
						}
					}
				case *ast.UnaryExpr:
					if x.Op == token.NOT {
						add(fn, "drop-not", x.OpPos, x.OpPos+1, "")
					}
				}
				return true
			})
		}
	}
	prefix := "g"
	if *second {
		prefix = "h"
	}
	for i := range out {
		out[i].ID = fmt.Sprintf(prefix+"%04d-%s-%d-%s", i, strings.TrimSuffix(out[i].File, ".go"), out[i].Line, strings.ReplaceAll(strings.ReplaceAll(out[i].Op, " ", ""), ">", ""))
	}
	enc := json.NewEncoder(os.Stdout)
	enc.SetIndent("", " ")
	if err := enc.Encode(out); err != nil {
		panic(err)
	}
}

// thirdSet: wrong-variable mutants. Every use of a local variable or parameter in an
// argument list, index, return statement or right-hand side is replaced by each other
// local or parameter of the same function with the identical type (declared before the use).
func thirdSet(dir string) {
	cfg := &packages.Config{Mode: packages.LoadSyntax, Dir: dir, Env: append(os.Environ(), "GOFLAGS=-mod=mod", "GOPROXY=off", "GOSUMDB=off", "GOWORK=off", "GOTOOLCHAIN=local")}
	pkgs, err := packages.Load(cfg, ".")
	if err != nil || len(pkgs) != 1 || len(pkgs[0].Errors) > 0 {
		panic(fmt.Sprint("load: ", err, pkgs))
	}
	pkg := pkgs[0]
	var out []mutant
	for fi, af := range pkg.Syntax {
		fname := pkg.CompiledGoFiles[fi]
		if strings.HasSuffix(fname, "_test.go") {
			continue
		}
		src, _ := os.ReadFile(fname)
		base := filepath.Base(fname)
		off := func(p token.Pos) int { return pkg.Fset.Position(p).Offset }
		for _, d := range af.Decls {
			fd, ok := d.(*ast.FuncDecl)
			if !ok || fd.Body == nil {
				continue
			}
			fn := fd.Name.Name
			if fd.Recv != nil && len(fd.Recv.List) == 1 {
				t := fd.Recv.List[0].Type
				if s, ok := t.(*ast.StarExpr); ok {
					t = s.X
				}
				if id, ok := t.(*ast.Ident); ok {
					fn = id.Name + "." + fn
				}
			}
			// candidate variables of the function (params, results, locals) with their declaration position
			var vars []*types.Var
			seen := map[*types.Var]bool{}
			ast.Inspect(fd, func(n ast.Node) bool {
				if id, ok := n.(*ast.Ident); ok {
					if v, ok := pkg.TypesInfo.Defs[id].(*types.Var); ok && v != nil && !v.IsField() && id.Name != "_" && !seen[v] {
						seen[v] = true
						vars = append(vars, v)
					}
				}
				return true
			})
			var visit func(n ast.Node, inUse bool)
			emit := func(id *ast.Ident) {
				v, ok := pkg.TypesInfo.Uses[id].(*types.Var)
				if !ok || v == nil || v.IsField() || !seen[v] {
					return
				}
				n := 0
				for _, w := range vars {
					if w == v || w.Name() == v.Name() || w.Pos() >= id.Pos() || !types.Identical(w.Type(), v.Type()) {
						continue
					}
					// the replacement must be in scope at the use
					if sc := w.Parent(); sc == nil || !(sc.Pos() <= id.Pos() && id.End() <= sc.End()) {
						continue
					}
					if n >= 2 {
						break
					}
					n++
					st, en := off(id.Pos()), off(id.End())
					out = append(out, mutant{File: base, Start: st, End: en, New: w.Name(), Op: "wrong-var " + v.Name() + "->" + w.Name(), Line: pkg.Fset.Position(id.Pos()).Line, Func: fn, Old: string(src[st:en])})
				}
			}
			visit = func(n ast.Node, inUse bool) {
				switch x := n.(type) {
				case nil:
					return
				case *ast.Ident:
					if inUse {
						emit(x)
					}
				case *ast.CallExpr:
					visit(x.Fun, false)
					for _, a := range x.Args {
						visit(a, true)
					}
				case *ast.SelectorExpr:
					visit(x.X, inUse)
				case *ast.IndexExpr:
					visit(x.X, true)
					visit(x.Index, true)
				case *ast.ReturnStmt:
					for _, r := range x.Results {
						visit(r, true)
					}
				case *ast.AssignStmt:
					for _, l := range x.Lhs {
						if ie, ok := l.(*ast.IndexExpr); ok {
							visit(ie, true)
						}
					}
					for _, r := range x.Rhs {
						visit(r, true)
					}
				case *ast.FuncLit:
					visit(x.Body, false)
				default:
					ast.Inspect(n, func(c ast.Node) bool {
						if c == n || c == nil {
							return true
						}
						switch c.(type) {
						case *ast.CallExpr, *ast.ReturnStmt, *ast.AssignStmt, *ast.FuncLit, *ast.IndexExpr:
							visit(c, inUse)
							return false
						case *ast.Ident:
							if inUse {
								emit(c.(*ast.Ident))
							}
						}
						return true
					})
				}
			}
			visit(fd.Body, false)
		}
	}
	sort.Slice(out, func(i, j int) bool {
		if out[i].File != out[j].File {
			return out[i].File < out[j].File
		}
		return out[i].Start < out[j].Start
	})
	// dedupe
	var uniq []mutant
	for i, m := range out {
		if i > 0 && m.File == out[i-1].File && m.Start == out[i-1].Start && m.New == out[i-1].New {
			continue
		}
		uniq = append(uniq, m)
	}
	for i := range uniq {
		uniq[i].ID = fmt.Sprintf("w%04d-%s-%d-%s", i, strings.TrimSuffix(uniq[i].File, ".go"), uniq[i].Line, strings.ReplaceAll(strings.ReplaceAll(strings.TrimPrefix(uniq[i].Op, "wrong-var "), ">", ""), " ", ""))
	}
	enc := json.NewEncoder(os.Stdout)
	enc.SetIndent("", " ")
	if err := enc.Encode(uniq); err != nil {
		panic(err)
	}
}
