package eng

import (
	"crypto/sha1"
	"fmt"
	"go/constant"
	"go/token"
	"go/types"
	"os"
	"sort"
	"strings"
	"sync/atomic"
	"time"

	"golang.org/x/tools/go/ssa"
)

// Action of a call disposition.
type Action int

const (
	ActDefault Action = iota // let the engine decide
	ActInline                // analyse the callee body in place
	ActEvent                 // opaque event with symbolic results
)

// Disposition tells the engine what to do with a call.
type Disposition struct {
	Act       Action
	Class     string
	TaskArg   int   // 1-based index into Args of a closure to execute as a task right after the event (0: none)
	AliasArgs []int // argument indexes to alias to EvArg terms after the event
	Results   []*Term
}

// CallInfo describes a call site to the classifier.
type CallInfo struct {
	Instr    ssa.CallInstruction
	Common   *ssa.CallCommon
	Static   *ssa.Function
	Method   *types.Func
	IsInvoke bool
	FnTerm   *Term
	Recv     *Term
	Args     []*Term
	Fn       *ssa.Function
	Depth    int
	Deferred bool
	IsGo     bool
}

// Config of one exploration.
type Config struct {
	Prog      *ssa.Program
	Pkg       *ssa.Package
	Fset      *token.FileSet
	Root      *ssa.Function
	RootFree  []*Term
	MaxDepth  int
	MaxStates int
	// SharedStates, when set, is a counter shared by explorations that run side by side (the
	// cells of a case split); SharedMax bounds their total (memory safety valve).
	SharedStates *int64
	SharedMax    int64
	// MaxSeconds bounds the wall-clock time of one exploration (safety valve; exceeding it is reported as a problem).
	MaxSeconds int
	// Classify may override the default disposition of a call.
	Classify func(ci *CallInfo) *Disposition
	// IntLowerBound gives assumed lower bounds of integer base terms.
	IntLowerBound func(t *Term) (int64, bool)
	// AfterEvent may add assumptions right after an event (global case splits).
	// Returning false abandons the path (assumption contradicts facts).
	AfterEvent func(c *Ctx, ev *Event) bool
	Monitors   []Monitor
	// ParamInit overrides the initial abstract value of root parameters (by index).
	ParamInit map[int]*Term
	// InitFacts may preload facts (assumptions about ParamInit terms).
	InitFacts func(e *Engine, f *Facts)
	// IndexEvents makes every slice indexing an "index" event (Decided = provably in bounds).
	IndexEvents bool
	// MemInit preloads memory (address term -> content), e.g. the cells a root closure captured.
	MemInit map[*Term]*Term
	// DropReturnStates: do not retain the final state of every return (the monitors saw it); saves memory on big explorations.
	DropReturnStates bool
	// KeepFacts disables the pruning of facts about dead values (needed when
	// the facts at the returns are the result, as in summary extraction).
	KeepFacts bool
	// LoadEvents delivers a "load" event for every read of non-local memory.
	LoadEvents bool
	// KeepFacts: when false (default), facts about values no longer referenced are pruned.
	Debug      bool
	DebugBlock int
	DebugFn    string
}

// ReturnRec is what a path returned from the root.
type ReturnRec struct {
	Vals  []*Term
	State *State
	Pos   token.Position
	Panic bool
}

// Problem is an engine-level difficulty (loss of precision, resource bound).
type Problem struct {
	Kind string
	Msg  string
	Pos  token.Position
}

// Engine explores one root function.
type Engine struct {
	Cfg        Config
	finfo      map[*ssa.Function]*FuncInfo
	visited    map[[20]byte]bool
	sharedSeen int
	deadline   time.Time
	work       []*State
	States     int
	Forks      int
	Events     int
	Returns    []ReturnRec
	Problems   []Problem
	volatile   map[*ssa.Alloc]map[int]bool // first-level fields written asynchronously (-1: the whole cell)
	sentinel   map[string]bool             // package-level error variables with a fixed non-nil value
	unwrapIdx  map[string][3]int           // type key -> {field index, by pointer, found} of an Unwrap() error method
	allocOf    map[string]*ssa.Alloc
	siteType   map[string]types.Type
	Inlined    map[*ssa.Function]bool
	Trans      int
	// SiteClass records the class of the event created at each site.
	SiteClass map[string]string
	// IVStep records the constant step of each induction-variable symbol (0 = inconsistent).
	IVStep map[string]int64
	// StatesAt counts abstract states per (function, block) of the top frame.
	StatesAt map[string]int
	// SiteArgs records the argument terms of the latest event at each site (for monitors that relate results to arguments).
}

// New creates an engine.
func New(cfg Config) *Engine {
	if cfg.MaxDepth == 0 {
		cfg.MaxDepth = 4
	}
	if cfg.MaxStates == 0 {
		cfg.MaxStates = 150000
	}
	if cfg.MaxSeconds == 0 {
		cfg.MaxSeconds = 180
	}
	e := &Engine{Cfg: cfg, finfo: map[*ssa.Function]*FuncInfo{}, visited: map[[20]byte]bool{},
		volatile: map[*ssa.Alloc]map[int]bool{}, allocOf: map[string]*ssa.Alloc{}, siteType: map[string]types.Type{}, Inlined: map[*ssa.Function]bool{}, SiteClass: map[string]string{}, IVStep: map[string]int64{}, StatesAt: map[string]int{}}
	e.computeVolatile()
	if os.Getenv("FLYTSA_DEBUG_VOLATILE") != "" {
		e.DebugVolatile()
	}
	e.computeSentinels()
	return e
}

// computeSentinels finds package-level error variables that are assigned exactly once,
// in the package initialiser, from errors.New / fmt.Errorf: their value is a fixed
// non-nil error for the whole run.
func (e *Engine) computeSentinels() {
	e.sentinel = map[string]bool{}
	stores := map[*ssa.Global][]*ssa.Store{}
	where := map[*ssa.Store]*ssa.Function{}
	var visit func(f *ssa.Function)
	visit = func(f *ssa.Function) {
		for _, b := range f.Blocks {
			for _, ins := range b.Instrs {
				if st, ok := ins.(*ssa.Store); ok {
					if g, ok := st.Addr.(*ssa.Global); ok {
						stores[g] = append(stores[g], st)
						where[st] = f
					}
				}
			}
		}
		for _, a := range f.AnonFuncs {
			visit(a)
		}
	}
	for _, m := range e.Cfg.Pkg.Members {
		if f, ok := m.(*ssa.Function); ok {
			visit(f)
		}
		if t, ok := m.(*ssa.Type); ok {
			for _, ty := range []types.Type{t.Type(), types.NewPointer(t.Type())} {
				ms := e.Cfg.Prog.MethodSets.MethodSet(ty)
				for i := 0; i < ms.Len(); i++ {
					if f := e.Cfg.Prog.MethodValue(ms.At(i)); f != nil && f.Pkg == e.Cfg.Pkg {
						visit(f)
					}
				}
			}
		}
	}
	for g, sts := range stores {
		if len(sts) != 1 || where[sts[0]].Name() != "init" || where[sts[0]].Parent() != nil {
			continue
		}
		call, ok := sts[0].Val.(*ssa.Call)
		if !ok {
			continue
		}
		if cal := call.Common().StaticCallee(); cal != nil {
			switch cal.String() {
			case "errors.New", "fmt.Errorf":
				e.sentinel[g.String()] = true
			}
		}
	}
}

func (e *Engine) problem(kind, msg string, pos token.Position) {
	for _, p := range e.Problems {
		if p.Kind == kind && p.Msg == msg && p.Pos == pos {
			return
		}
	}
	e.Problems = append(e.Problems, Problem{kind, msg, pos})
}

// computeVolatile marks cells that are captured by a closure and written
// inside some closure body: their content may change at any time.
func (e *Engine) computeVolatile() {
	var fns []*ssa.Function
	var add func(f *ssa.Function)
	add = func(f *ssa.Function) {
		fns = append(fns, f)
		for _, a := range f.AnonFuncs {
			add(a)
		}
	}
	for _, m := range e.Cfg.Pkg.Members {
		if f, ok := m.(*ssa.Function); ok {
			add(f)
		}
		if t, ok := m.(*ssa.Type); ok {
			for _, ty := range []types.Type{t.Type(), types.NewPointer(t.Type())} {
				ms := e.Cfg.Prog.MethodSets.MethodSet(ty)
				for i := 0; i < ms.Len(); i++ {
					if f := e.Cfg.Prog.MethodValue(ms.At(i)); f != nil && f.Pkg == e.Cfg.Pkg && f.Synthetic == "" {
						add(f)
					}
				}
			}
		}
	}
	// mayWrite[f][i]: f may store through its i-th parameter (receiver first), directly or
	// by handing it (or the address of one of its fields) to an in-package function that does
	mayWrite := map[*ssa.Function]map[int]bool{}
	paramIdx := func(f *ssa.Function, v ssa.Value) int {
		if p, ok := rootValue(v).(*ssa.Parameter); ok {
			for i, q := range f.Params {
				if q == p {
					return i
				}
			}
		}
		return -1
	}
	for changed := true; changed; {
		changed = false
		for _, f := range fns {
			mark := func(i int) {
				if i < 0 {
					return
				}
				if mayWrite[f] == nil {
					mayWrite[f] = map[int]bool{}
				}
				if !mayWrite[f][i] {
					mayWrite[f][i] = true
					changed = true
				}
			}
			for _, b := range f.Blocks {
				for _, ins := range b.Instrs {
					switch x := ins.(type) {
					case *ssa.Store:
						mark(paramIdx(f, x.Addr))
					case ssa.CallInstruction:
						cc := x.Common()
						if g := cc.StaticCallee(); g != nil && !cc.IsInvoke() {
							for ai, a := range cc.Args {
								if mayWrite[g][ai] {
									mark(paramIdx(f, a))
								}
							}
						}
					}
				}
			}
		}
	}
	// writtenFree[f][i]: the first-level fields of the object behind free variable i that f
	// stores to (-1: the whole object, or a part that is not a first-level field)
	writtenFree := map[*ssa.Function]map[int]map[int]bool{}
	addW := func(f *ssa.Function, i, field int) bool {
		if writtenFree[f] == nil {
			writtenFree[f] = map[int]map[int]bool{}
		}
		if writtenFree[f][i] == nil {
			writtenFree[f][i] = map[int]bool{}
		}
		if writtenFree[f][i][field] {
			return false
		}
		writtenFree[f][i][field] = true
		return true
	}
	// writtenDeref[f][i]: the same for the object the pointer held in free variable i points to
	// (a captured pointer variable: `state.stopped = true` with state a captured *T)
	writtenDeref := map[*ssa.Function]map[int]map[int]bool{}
	addD := func(f *ssa.Function, i, field int) {
		if writtenDeref[f] == nil {
			writtenDeref[f] = map[int]map[int]bool{}
		}
		if writtenDeref[f][i] == nil {
			writtenDeref[f][i] = map[int]bool{}
		}
		writtenDeref[f][i][field] = true
	}
	for _, f := range fns {
		if len(f.FreeVars) == 0 {
			continue
		}
		idx := map[*ssa.FreeVar]int{}
		for i, fv := range f.FreeVars {
			idx[fv] = i
		}
		for _, b := range f.Blocks {
			for _, ins := range b.Instrs {
				if st, ok := ins.(*ssa.Store); ok {
					if fv, ok := rootValue(st.Addr).(*ssa.FreeVar); ok {
						addW(f, idx[fv], firstField(st.Addr))
					}
					if fv := derefFree(rootValue(st.Addr)); fv != nil {
						addD(f, idx[fv], firstField(st.Addr))
					}
				}
				if ci, ok := ins.(ssa.CallInstruction); ok {
					cc := ci.Common()
					if g := cc.StaticCallee(); g != nil && !cc.IsInvoke() {
						for ai, a := range cc.Args {
							if fv, ok := rootValue(a).(*ssa.FreeVar); ok && mayWrite[g][ai] {
								f1 := firstField(a)
								if a == ssa.Value(fv) {
									f1 = -1
								}
								addW(f, idx[fv], f1)
							}
							if fv := derefFree(rootValue(a)); fv != nil && mayWrite[g][ai] {
								addD(f, idx[fv], -1)
							}
						}
					}
				}
			}
		}
	}
	// writes done by a nested closure through a variable its parent captured count for the parent
	for changed := true; changed; {
		changed = false
		for _, f := range fns {
			for _, b := range f.Blocks {
				for _, ins := range b.Instrs {
					mc, ok := ins.(*ssa.MakeClosure)
					if !ok {
						continue
					}
					cf := mc.Fn.(*ssa.Function)
					for i, bnd := range mc.Bindings {
						fv, isFV := bnd.(*ssa.FreeVar)
						if !isFV || len(writtenFree[cf][i]) == 0 {
							continue
						}
						for k, pfv := range f.FreeVars {
							if pfv != fv {
								continue
							}
							for fld := range writtenFree[cf][i] {
								if addW(f, k, fld) {
									changed = true
								}
							}
						}
					}
				}
			}
		}
	}
	// escapes[f][i]: the function-typed parameter i of f is used for anything but calling it
	// (or handing it to an in-package function that only calls it): then a closure passed there
	// may run later or on another goroutine
	escapes := map[*ssa.Function]map[int]bool{}
	for changed := true; changed; {
		changed = false
		for _, f := range fns {
			for i, prm := range f.Params {
				if escapes[f][i] {
					continue
				}
				if _, isFn := prm.Type().Underlying().(*types.Signature); !isFn {
					continue
				}
				esc := false
				refs := prm.Referrers()
				if refs == nil {
					continue
				}
				for _, ref := range *refs {
					ci, isCall := ref.(ssa.CallInstruction)
					if !isCall {
						esc = true
						break
					}
					if _, isGo := ref.(*ssa.Go); isGo {
						esc = true
						break
					}
					cc := ci.Common()
					if cc.Value == prm {
						continue // called directly (also deferred: same goroutine, before f returns)
					}
					g := cc.StaticCallee()
					for ai, a := range cc.Args {
						if a == prm && (g == nil || cc.IsInvoke() || len(g.Blocks) == 0 || escapes[g][ai]) {
							esc = true
						}
					}
				}
				if esc {
					if escapes[f] == nil {
						escapes[f] = map[int]bool{}
					}
					escapes[f][i] = true
					changed = true
				}
			}
		}
	}
	// a closure is synchronous when every use of the closure value is a direct call, a defer,
	// or an argument of an in-package function that only calls it
	synchronous := func(mc *ssa.MakeClosure) bool {
		if cf, ok := mc.Fn.(*ssa.Function); ok && strings.Contains(cf.Synthetic, "range-over-func") {
			return true // the body of a range-over-func loop: the iterator calls it in place
		}
		refs := mc.Referrers()
		if refs == nil {
			return false
		}
		for _, ref := range *refs {
			if _, isGo := ref.(*ssa.Go); isGo {
				return false
			}
			ci, isCall := ref.(ssa.CallInstruction)
			if !isCall {
				return false
			}
			cc := ci.Common()
			if cc.Value == mc {
				continue
			}
			g := cc.StaticCallee()
			found := false
			for ai, a := range cc.Args {
				if a == mc {
					found = true
					if g != nil && !cc.IsInvoke() && CalleeName(g) == "(*sync.Once).Do" {
						continue // runs in place, at most once
					}
					if g == nil || cc.IsInvoke() || len(g.Blocks) == 0 || escapes[g][ai] {
						return false
					}
				}
			}
			if !found {
				return false
			}
		}
		return true
	}
	// asyncParam[f][i] / asyncFree[f][i]: fields of the object behind parameter / free variable i
	// of f that are written by a closure which may run asynchronously (f builds such a closure
	// around the value, or hands the value to a function that does)
	asyncParam := map[*ssa.Function]map[int]map[int]bool{}
	asyncFree := map[*ssa.Function]map[int]map[int]bool{}
	addTo := func(m map[*ssa.Function]map[int]map[int]bool, f *ssa.Function, i, fld int) bool {
		if m[f] == nil {
			m[f] = map[int]map[int]bool{}
		}
		if m[f][i] == nil {
			m[f][i] = map[int]bool{}
		}
		if m[f][i][fld] {
			return false
		}
		m[f][i][fld] = true
		return true
	}
	// propagate: in function h the value v stands for an object whose fields in set are written
	// asynchronously
	propagate := func(h *ssa.Function, v ssa.Value, set map[int]bool) bool {
		changed := false
		r := rootValue(v)
		direct := r == v
		for fld := range set {
			if !direct {
				fld = -1 // a part of the object was handed on: keep it simple
			}
			switch x := r.(type) {
			case *ssa.Alloc:
				if e.volatile[x] == nil {
					e.volatile[x] = map[int]bool{}
				}
				if !e.volatile[x][fld] {
					e.volatile[x][fld] = true
					changed = true
				}
			case *ssa.Parameter:
				for i, q := range h.Params {
					if q == x && addTo(asyncParam, h, i, fld) {
						changed = true
					}
				}
			case *ssa.FreeVar:
				for i, q := range h.FreeVars {
					if q == x && addTo(asyncFree, h, i, fld) {
						changed = true
					}
				}
			}
		}
		return changed
	}
	for changed := true; changed; {
		changed = false
		for _, f := range fns {
			for _, b := range f.Blocks {
				for _, ins := range b.Instrs {
					switch x := ins.(type) {
					case *ssa.MakeClosure:
						cf := x.Fn.(*ssa.Function)
						for i, bnd := range x.Bindings {
							if !synchronous(x) && len(writtenFree[cf][i]) > 0 && propagate(f, bnd, writtenFree[cf][i]) {
								changed = true
							}
							// the closure writes through the pointer the captured variable holds: the objects
							// ever stored into that variable are written asynchronously
							if al, isAl := bnd.(*ssa.Alloc); isAl && !synchronous(x) && len(writtenDeref[cf][i]) > 0 && al.Referrers() != nil {
								for _, ref := range *al.Referrers() {
									if st, ok := ref.(*ssa.Store); ok && st.Addr == ssa.Value(al) && propagate(f, st.Val, writtenDeref[cf][i]) {
										changed = true
									}
								}
							}
							// runs in place or not: what the closure hands on to asynchronous code stays asynchronous
							if len(asyncFree[cf][i]) > 0 && propagate(f, bnd, asyncFree[cf][i]) {
								changed = true
							}
						}
					case ssa.CallInstruction:
						cc := x.Common()
						if g := cc.StaticCallee(); g != nil && !cc.IsInvoke() {
							for ai, a := range cc.Args {
								if len(asyncParam[g][ai]) > 0 && propagate(f, a, asyncParam[g][ai]) {
									changed = true
								}
							}
						}
					}
				}
			}
		}
	}
}

func (e *Engine) DebugVolatile() {
	for al, set := range e.volatile {
		fmt.Fprintf(os.Stderr, "volatile %s in %s: %v\n", al.Name(), al.Parent().Name(), set)
	}
}

// derefFree: v is the content of a free variable (a load of the captured variable).
func derefFree(v ssa.Value) *ssa.FreeVar {
	if u, ok := v.(*ssa.UnOp); ok && u.Op == token.MUL {
		if fv, ok := u.X.(*ssa.FreeVar); ok {
			return fv
		}
	}
	return nil
}

// firstField: the first-level field of the root object an address lies in (-1: the root itself,
// or an element / nested part that is not below a first-level field).
func firstField(v ssa.Value) int {
	out := -1
	for {
		switch x := v.(type) {
		case *ssa.FieldAddr:
			out = x.Field
			v = x.X
		case *ssa.IndexAddr:
			out = -1
			v = x.X
		default:
			return out
		}
	}
}

func rootValue(v ssa.Value) ssa.Value {
	for {
		switch x := v.(type) {
		case *ssa.FieldAddr:
			v = x.X
		case *ssa.IndexAddr:
			v = x.X
		default:
			return v
		}
	}
}

// Pos of an instruction (falls back to the enclosing function).
func (e *Engine) Pos(ins ssa.Instruction) token.Position {
	p := ins.Pos()
	if !p.IsValid() {
		// look around in the block for a positioned instruction
		if b := ins.Block(); b != nil {
			for _, o := range b.Instrs {
				if o.Pos().IsValid() {
					p = o.Pos()
					break
				}
			}
		}
		if !p.IsValid() && ins.Parent() != nil {
			p = ins.Parent().Pos()
		}
	}
	return e.Cfg.Fset.Position(p)
}

func (e *Engine) site(fr *Frame, ins ssa.Instruction) string {
	b := ins.Block()
	idx := 0
	for i, o := range b.Instrs {
		if o == ins {
			idx = i
			break
		}
	}
	pos := e.Pos(ins)
	return fmt.Sprintf("%s|%s#%d.%d@%d", fr.ctx, fr.fn.Name(), b.Index, idx, pos.Line)
}

// Run explores the root function to a fixpoint.
func (e *Engine) Run() {
	root := e.Cfg.Root
	st := &State{mem: map[*Term]*Term{}, dirty: map[*Term][]*Term{}, facts: newFacts()}
	for _, m := range e.Cfg.Monitors {
		st.mon = append(st.mon, m.Init())
	}
	fr := &Frame{fn: root, env: map[ssa.Value]*Term{}, ctx: ""}
	for i, p := range root.Params {
		fr.env[p] = Param(i, p.Name())
		if t, ok := e.Cfg.ParamInit[i]; ok {
			fr.env[p] = t
		}
	}
	if e.Cfg.InitFacts != nil {
		e.Cfg.InitFacts(e, st.facts)
	}
	for a, v := range e.Cfg.MemInit {
		st.mem[a] = v
	}
	if len(root.FreeVars) > 0 {
		if e.Cfg.RootFree != nil {
			fr.free = e.Cfg.RootFree
		} else {
			for i, fv := range root.FreeVars {
				fr.free = append(fr.free, Free(i, fv.Name()))
			}
		}
	}
	st.frames = []*Frame{fr}
	if len(root.Blocks) == 0 {
		e.problem("nobody", "root has no body: "+root.String(), token.Position{})
		return
	}
	e.deadline = time.Now().Add(time.Duration(e.Cfg.MaxSeconds) * time.Second)
	e.enterBlock(st, nil, root.Blocks[0])
	for len(e.work) > 0 {
		if e.States%512 == 0 && time.Now().After(e.deadline) {
			e.problem("budget", fmt.Sprintf("time budget of %ds exceeded after %d states", e.Cfg.MaxSeconds, e.States), token.Position{})
			return
		}
		s := e.work[len(e.work)-1]
		e.work = e.work[:len(e.work)-1]
		e.run(s)
		if e.States > e.Cfg.MaxStates {
			e.problem("budget", fmt.Sprintf("state budget %d exceeded", e.Cfg.MaxStates), token.Position{})
			return
		}
		if e.Cfg.SharedStates != nil && e.States-e.sharedSeen >= 256 {
			tot := atomic.AddInt64(e.Cfg.SharedStates, int64(e.States-e.sharedSeen))
			e.sharedSeen = e.States
			if tot > e.Cfg.SharedMax {
				e.problem("budget", fmt.Sprintf("shared state budget %d of the case split exceeded", e.Cfg.SharedMax), token.Position{})
				return
			}
		}
	}
}

func (e *Engine) deliver(st *State, ev *Event) bool {
	e.Events++
	ev.InTask = st.inTask > 0
	ev.FrameCtx = st.top().ctx
	c := &Ctx{E: e, St: st}
	for i, m := range e.Cfg.Monitors {
		st.mon[i] = m.OnEvent(c, st.mon[i], ev)
	}
	if e.Cfg.AfterEvent != nil {
		if !e.Cfg.AfterEvent(c, ev) {
			return false
		}
	}
	return true
}

// enterBlock moves the top frame to block `to` (coming from `from`),
// evaluates phis, widens induction variables on back edges, prunes dead
// values, and schedules the state unless an identical one was seen.
func (e *Engine) enterBlock(st *State, from, to *ssa.BasicBlock) {
	fr := st.top()
	fi := e.info(fr.fn)
	// phis
	var phis []*ssa.Phi
	for _, ins := range to.Instrs {
		p, ok := ins.(*ssa.Phi)
		if !ok {
			break
		}
		phis = append(phis, p)
	}
	if len(phis) > 0 && from != nil {
		pi := -1
		for i, p := range to.Preds {
			if p == from {
				pi = i
				break
			}
		}
		back := to.Dominates(from)
		isHeader := false
		if l := fi.LoopOf(to); l != nil && l.Header == to {
			isHeader = true
		}
		vals := make([]*Term, len(phis))
		for i, p := range phis {
			vals[i] = e.value(st, fr, p.Edges[pi])
		}
		for i, p := range phis {
			v := vals[i]
			if back && isIntType(p.Type()) {
				v = e.widen(st, fr, p, v)
			} else if isHeader && !back && isIntType(p.Type()) && v.IsConstInt() {
				// name the induction variable from the first iteration on (exact bounds)
				name := IVName(fr.ctx, to, p)
				st.shiftSite(name)
				k := Sym(name, 0)
				st.facts.bnd[k] = bound{lo: v.I, hi: v.I, hasLo: true, hasHi: true}
				v = k
			}
			if v.Depth() > 16 {
				e.problem("termdepth", fmt.Sprintf("value of %s in %s grows without bound; precision dropped", p.Name(), fr.fn.Name()), e.blockPos(to))
				v = Unknown("deep|" + fr.ctx + "|" + fr.fn.Name() + "." + p.Name())
			}
			fr.env[p] = v
		}
	}
	fr.prev = from
	fr.block = to
	fr.pc = len(phis)
	if l := fi.LoopOf(to); l != nil && l.Header == to && from != nil {
		ev := &Event{Kind: "loophead", Fn: fr.fn, Depth: fr.depth, Pos: e.blockPos(to), Succ: to, Taken: to.Dominates(from), Site: LoopID(fr.ctx, to)}
		if !e.deliver(st, ev) {
			return
		}
	}
	// prune
	live := fi.liveIn[to]
	for k := range fr.env {
		if !live[k] {
			delete(fr.env, k)
		}
	}
	st.gc()
	e.pruneFacts(st)
	st.note(fmt.Sprintf("%s.b%d(%s)", fr.fn.Name(), to.Index, to.Comment), e.blockPos(to))
	e.Trans++
	k := st.key()
	if !e.markVisited(k) {
		return
	}
	e.States++
	e.StatesAt[fmt.Sprintf("%s.b%d", fr.fn.Name(), to.Index)]++
	if e.Cfg.DebugFn != "" && fr.fn.Name() == e.Cfg.DebugFn && to.Index == e.Cfg.DebugBlock {
		fmt.Printf("KEY %s\n", k)
	}
	if e.Cfg.Debug && len(st.frames) == 1 && to.Index == e.Cfg.DebugBlock {
		fmt.Printf("KEY %s\n", k)
	}
	e.work = append(e.work, st)
}

// IVName is the name of the symbol standing for an integer header phi.
func IVName(ctx string, header *ssa.BasicBlock, p *ssa.Phi) string {
	return "iv|" + LoopID(ctx, header) + "|" + p.Name()
}

// IVLoop extracts the loop id from an induction-variable symbol name.
func IVLoop(name string) (string, bool) {
	if !strings.HasPrefix(name, "iv|") {
		return "", false
	}
	rest := name[3:]
	i := strings.LastIndex(rest, "|")
	if i < 0 {
		return "", false
	}
	return rest[:i], true
}

// Bound is the exported view of an integer interval.
type Bound struct {
	Lo, Hi       int64
	HasLo, HasHi bool
}

// Bounds returns the interval the facts of st imply for an integer term.
func (e *Engine) Bounds(st *State, t *Term) Bound {
	b := e.bounds(st.facts, t)
	return Bound{Lo: b.lo, Hi: b.hi, HasLo: b.hasLo, HasHi: b.hasHi}
}

// MonByName returns the state of the named monitor in this state.
func (s *State) MonByName(e *Engine, name string) MState {
	for i, m := range e.Cfg.Monitors {
		if m.Name() == name && i < len(s.mon) {
			return s.mon[i]
		}
	}
	return nil
}

// Mon returns the current state of the i-th monitor.
func (c *Ctx) Mon(i int) MState { return c.St.mon[i] }

// markVisited records the state key (by digest); false if it was seen before.
func (e *Engine) markVisited(k string) bool {
	h := sha1.Sum([]byte(k))
	if e.visited[h] {
		return false
	}
	e.visited[h] = true
	return true
}

// LoopID names a loop instance (call string + function + header block).
func LoopID(ctx string, header *ssa.BasicBlock) string {
	return fmt.Sprintf("%s|%s.b%d", ctx, header.Parent().Name(), header.Index)
}

// Ctx of the frame at the given depth from the top (0 = top).
func (s *State) FrameCtx(fromTop int) string {
	i := len(s.frames) - 1 - fromTop
	if i < 0 {
		return ""
	}
	return s.frames[i].ctx
}

// FrameFn returns the function of the frame fromTop levels below the top.
func (s *State) FrameFn(fromTop int) *ssa.Function {
	i := len(s.frames) - 1 - fromTop
	if i < 0 {
		return nil
	}
	return s.frames[i].fn
}

// FrameBlock returns the block the frame fromTop levels below the top is executing
// (for a caller frame: the block of the call site).
func (s *State) FrameBlock(fromTop int) *ssa.BasicBlock {
	i := len(s.frames) - 1 - fromTop
	if i < 0 {
		return nil
	}
	return s.frames[i].block
}

// Depth is the number of frames.
func (s *State) Depth() int { return len(s.frames) }

// InTask reports whether a task frame is active.
func (s *State) InTask() bool { return s.inTask > 0 }

func (e *Engine) blockPos(b *ssa.BasicBlock) token.Position {
	for _, o := range b.Instrs {
		if o.Pos().IsValid() {
			return e.Cfg.Fset.Position(o.Pos())
		}
	}
	return token.Position{}
}

// pruneFacts drops facts none of whose event/symbol leaves is referenced by
// any live value, cell or monitor any more.
func (e *Engine) pruneFacts(st *State) {
	if e.Cfg.KeepFacts {
		return
	}
	ref := map[*Term]bool{}
	mark := func(t *Term) {
		if t == nil {
			return
		}
		t.Walk(func(n *Term) {
			switch n.K {
			case KEv, KEvArg, KSym, KParam, KFree, KAlloc, KMake, KLoad, KUnknown, KLookup, KLookupOk, KLen:
				ref[n] = true
			}
		})
	}
	for _, f := range st.frames {
		for _, v := range f.env {
			mark(v)
		}
		for _, v := range f.free {
			mark(v)
		}
		for _, d := range f.defers {
			mark(d.fn)
			for _, a := range d.args {
				mark(a)
			}
		}
	}
	for k, v := range st.mem {
		mark(k)
		mark(v)
	}
	for _, m := range st.mon {
		if m != nil {
			for _, t := range m.Terms() {
				mark(t)
			}
		}
	}
	keep := func(t *Term) bool {
		// a fact is useful only while every symbolic leaf it mentions is still referenced
		ok := true
		t.Walk(func(n *Term) {
			switch n.K {
			case KEv, KEvArg, KSym, KAlloc, KMake, KUnknown:
				if !ref[n] {
					ok = false
				}
			}
		})
		return ok
	}
	for k := range st.facts.b {
		if !keep(k) {
			delete(st.facts.b, k)
		}
	}
	for k := range st.facts.bnd {
		if !keep(k) {
			delete(st.facts.bnd, k)
		}
	}
	for k := range st.facts.dyn {
		if !keep(k) {
			delete(st.facts.dyn, k)
		}
	}
}

// widen handles an integer phi on a back edge.
func (e *Engine) widen(st *State, fr *Frame, p *ssa.Phi, incoming *Term) *Term {
	prev, ok := fr.env[p]
	if !ok {
		return incoming
	}
	name := IVName(fr.ctx, p.Block(), p)
	// countdown from a symbolic start: represent the value as start - counter
	if v, ok := e.widenCountdown(st, name, prev, incoming); ok {
		return v
	}
	pb, pc := AffParts(prev)
	ib, ic := AffParts(incoming)
	if pb != ib || pc == ic {
		// not an affine step of the previous value: if the value keeps changing, give up precision
		if prev != incoming && incoming.Depth() > 6 {
			return Unknown(name)
		}
		return incoming
	}
	step := ic - pc
	if old, ok := e.IVStep[name]; ok && old != step {
		e.IVStep[name] = 0 // inconsistent steps
	} else if !ok {
		e.IVStep[name] = step
	}
	inb := e.bounds(st.facts, incoming)
	var nb bound
	wasIV := prev.K == KSym && prev.S == name && prev.G == 0
	first := !wasIV
	if wasIV {
		pbd := st.facts.bnd[prev]
		if pbd.hasLo && pbd.hasHi && pbd.lo == pbd.hi {
			first = true // the symbol still denotes exactly the initial value: first back edge
		} else {
			nb = pbd
			// keep the widened bound in the direction of travel, drop the other
			if step > 0 {
				nb.hasHi = false
			} else {
				nb.hasLo = false
			}
		}
	}
	if first {
		if step > 0 && inb.hasLo {
			nb.lo, nb.hasLo = inb.lo, true
		}
		if step < 0 && inb.hasHi {
			nb.hi, nb.hasHi = inb.hi, true
		}
	}
	sub := st.shiftSiteSub(name)
	k := Sym(name, 0)
	if nb.hasLo || nb.hasHi {
		st.facts.bnd[k] = nb
	}
	// the new symbol equals the incoming value: relational facts established on
	// that value before the back edge (bottom-tested loops: iv+1 < n) carry over
	inc := incoming
	if sub != nil {
		inc = incoming.Map(sub)
	}
	if inc.K != KConst {
		add := map[*Term]bool{}
		for atom, v := range st.facts.b {
			if atom.K == KBin && atom.Contains(inc) {
				na := atom.Map(func(t *Term) *Term {
					if t == inc {
						return k
					}
					return nil
				})
				if na != atom {
					add[na] = v
				}
			}
		}
		for a, v := range add {
			st.facts.b[a] = v
		}
	}
	return k
}

// widenCountdown handles a descending induction variable whose start is
// symbolic (for left := N; left > 0; left--): the value is kept as
// start - J + c with a counter symbol J >= 1, so that expressions such as
// N - left (the attempt number) stay exact.
func (e *Engine) widenCountdown(st *State, name string, prev, incoming *Term) (*Term, bool) {
	cnt := name + "#cnt"
	pp, pn, pc := Aff2Parts(prev)
	ip, in, ic := Aff2Parts(incoming)
	if pp == nil || pp != ip || pp.K == KSym && strings.HasPrefix(pp.S, "iv|") {
		return nil, false
	}
	switch {
	case pn == nil && in == nil && ic == pc-1:
		// first back edge: prev = P + c, incoming = P + c - 1  =>  P - J + c, J >= 1
	case pn != nil && pn == in && pn.K == KSym && pn.S == cnt && pn.G == 0 && ic == pc-1:
		// later back edges: prev = P - J + c, incoming = P - J + c - 1
	default:
		return nil, false
	}
	if old, ok := e.IVStep[name]; ok && old != -1 {
		e.IVStep[name] = 0
	} else if !ok {
		e.IVStep[name] = -1
	}
	st.shiftSite(cnt)
	j := Sym(cnt, 0)
	st.facts.bnd[j] = bound{lo: 1, hasLo: true}
	return Aff2(pp, j, pc), true
}

// value resolves an ssa.Value to a term in the frame.
func (e *Engine) value(st *State, fr *Frame, v ssa.Value) *Term {
	switch x := v.(type) {
	case *ssa.Const:
		return e.constTerm(x)
	case *ssa.Function:
		return Func(x.String(), x)
	case *ssa.Global:
		return Global(x.String())
	case *ssa.Builtin:
		return Func("builtin:"+x.Name(), nil)
	case *ssa.FreeVar:
		for i, fv := range fr.fn.FreeVars {
			if fv == x {
				if i < len(fr.free) {
					return fr.free[i]
				}
			}
		}
		return Unknown("freevar:" + x.Name())
	}
	if t, ok := fr.env[v]; ok {
		return t
	}
	e.problem("undef", fmt.Sprintf("value %s of %s not in environment", v.Name(), fr.fn.Name()), token.Position{})
	return Unknown("undef:" + fr.fn.Name() + "." + v.Name())
}

func (e *Engine) constTerm(c *ssa.Const) *Term {
	if c.Value == nil {
		switch c.Type().Underlying().(type) {
		case *types.Pointer, *types.Slice, *types.Map, *types.Chan, *types.Signature, *types.Interface:
			return Nil()
		case *types.Basic:
			if c.Type().Underlying().(*types.Basic).Kind() == types.UntypedNil {
				return Nil()
			}
		}
		return ZeroOf(c.Type())
	}
	switch c.Value.Kind() {
	case constant.Bool:
		return ConstBool(constant.BoolVal(c.Value))
	case constant.String:
		return ConstString(constant.StringVal(c.Value))
	case constant.Int:
		if i, ok := constant.Int64Val(c.Value); ok {
			if b, ok := c.Type().Underlying().(*types.Basic); ok && b.Info()&types.IsFloat != 0 {
				return Const(c.Value.ExactString(), types.Typ[types.Float64])
			}
			return ConstInt(i)
		}
	}
	return Const(c.Value.ExactString(), c.Type().Underlying())
}

// ZeroOf returns the zero value term of a type.
func ZeroOf(t types.Type) *Term {
	switch u := t.Underlying().(type) {
	case *types.Basic:
		switch {
		case u.Info()&types.IsBoolean != 0:
			return ConstBool(false)
		case u.Info()&types.IsString != 0:
			return ConstString("")
		case u.Info()&types.IsInteger != 0:
			return ConstInt(0)
		case u.Info()&types.IsNumeric != 0:
			return Const("0", types.Typ[types.Float64])
		case u.Kind() == types.UnsafePointer:
			return Nil()
		}
	case *types.Pointer, *types.Slice, *types.Map, *types.Chan, *types.Signature, *types.Interface:
		return Nil()
	}
	return Zero(t)
}

func expandZero(t *Term) *Term {
	if t.K != KZero {
		return t
	}
	switch u := t.T.Underlying().(type) {
	case *types.Struct:
		fs := make([]*Term, u.NumFields())
		for i := range fs {
			fs[i] = ZeroOf(u.Field(i).Type())
		}
		return Struct(t.T, fs)
	case *types.Array:
		if u.Len() <= 16 {
			fs := make([]*Term, u.Len())
			for i := range fs {
				fs[i] = ZeroOf(u.Elem())
			}
			return Array(t.T, fs)
		}
	}
	return t
}

// selector path of an address relative to its root.
type sel struct {
	field bool
	idx   int64
	sym   *Term
}

func addrPath(a *Term) (root *Term, path []sel, ok bool) {
	ok = true
	for {
		switch a.K {
		case KFieldAddr:
			path = append(path, sel{field: true, idx: a.I})
			a = a.A[0]
		case KIndexAddr:
			base := a.A[0]
			if a.A[1].IsConstInt() {
				path = append(path, sel{idx: a.A[1].I})
			} else {
				path = append(path, sel{sym: a.A[1]})
				ok = false
			}
			// indexing a slice made from a whole local array behaves like the array
			if base.K == KSliceOf && base.A[0].K == KAlloc && base.A[1] == nil {
				base = base.A[0]
			}
			a = base
		default:
			for i, j := 0, len(path)-1; i < j; i, j = i+1, j-1 {
				path[i], path[j] = path[j], path[i]
			}
			return a, path, ok
		}
	}
}

func getPath(v *Term, path []sel) *Term {
	for _, s := range path {
		v = expandZero(v)
		switch {
		case s.field && v.K == KStruct && int(s.idx) < len(v.A):
			v = v.A[s.idx]
		case s.field:
			v = Field(v, int(s.idx))
		case !s.field && s.sym == nil && v.K == KArray && int(s.idx) < len(v.A):
			v = v.A[s.idx]
		default:
			return nil
		}
	}
	return v
}

func setPath(v *Term, path []sel, nv *Term) *Term {
	if len(path) == 0 {
		return nv
	}
	v = expandZero(v)
	s := path[0]
	switch {
	case s.field && v.K == KStruct && int(s.idx) < len(v.A):
		na := append([]*Term(nil), v.A...)
		na[s.idx] = setPath(v.A[s.idx], path[1:], nv)
		return Struct(v.T, na)
	case !s.field && s.sym == nil && v.K == KArray && int(s.idx) < len(v.A):
		na := append([]*Term(nil), v.A...)
		na[s.idx] = setPath(v.A[s.idx], path[1:], nv)
		return Array(v.T, na)
	}
	return nil
}

// isVolatile: the location root.path may be written by code running asynchronously (a closure
// that is started as a task or goroutine, or stored): its content is unknown at every read.
// Volatility is kept per first-level field of the cell.
func (e *Engine) isVolatile(root *Term, path []sel) bool {
	if root.K != KAlloc {
		return false
	}
	al, ok := e.allocOf[root.S]
	if !ok {
		return false
	}
	set := e.volatile[al]
	if len(set) == 0 {
		return false
	}
	if set[-1] || len(path) == 0 {
		return true
	}
	if path[0].field {
		return set[int(path[0].idx)]
	}
	return true
}

// Load reads memory.
func (e *Engine) load(st *State, addr *Term, site string) *Term {
	addr = e.concretiseAddr(st, addr)
	root, path, ok := addrPath(addr)
	if root.K == KAlloc {
		if e.isVolatile(root, path) {
			return Unknown("volatile|" + site)
		}
		if v, hit := st.mem[addr]; hit && len(path) > 0 {
			return v
		}
		cur, hit := st.mem[root]
		if !hit {
			if root.G >= 2 {
				return Unknown("oldcell|" + site)
			}
			if t, ok := e.siteType[root.S]; ok {
				cur = ZeroOf(t)
			} else {
				return Unknown("cell|" + site)
			}
		}
		if !ok {
			return Unknown("symidx|" + site)
		}
		if v := getPath(cur, path); v != nil {
			return v
		}
		return Unknown("path|" + site)
	}
	if v, hit := st.mem[addr]; hit {
		return v
	}
	if addr.K == KGlobal && e.sentinel[addr.S] {
		return Fresh("sentinel|" + addr.S)
	}
	// slice contents are not modelled: the load is symbolic ("content at load time")
	return Load(addr)
}

// elemBase returns the slice value whose element the address designates (nil
// when the address is not a slice element).
func elemBase(addr *Term) *Term {
	for a := addr; a != nil; {
		switch a.K {
		case KFieldAddr:
			a = a.A[0]
		case KIndexAddr:
			if a.A[0].K != KAlloc && a.A[0].K != KFieldAddr && a.A[0].K != KGlobal {
				return a.A[0]
			}
			a = a.A[0]
		default:
			return nil
		}
	}
	return nil
}

// store writes memory; reports whether the target is non-local (an effect).
func (e *Engine) store(st *State, addr, val *Term) (nonLocal bool, volatile bool) {
	addr = e.concretiseAddr(st, addr)
	root, path, ok := addrPath(addr)
	if root.K == KAlloc {
		if e.isVolatile(root, path) {
			return false, true
		}
		if !ok {
			st.mem[addr] = val
			return false, false
		}
		cur, hit := st.mem[root]
		if !hit {
			if t, ok := e.siteType[root.S]; ok && root.G == 0 {
				cur = ZeroOf(t)
			} else {
				cur = Unknown("cell")
			}
		}
		if nv := setPath(cur, path, val); nv != nil {
			st.mem[root] = nv
		} else {
			st.mem[addr] = val
		}
		return false, false
	}
	if base := elemBase(addr); base != nil {
		// slice contents are not modelled: remember only that the slice was written
		if len(st.dirty[base]) == 0 {
			st.dirty[base] = []*Term{ConstBool(true)}
		}
		return true, false
	}
	st.mem[addr] = val
	return true, false
}

// concretiseAddr replaces, in addresses rooted at a local cell, index terms
// that the facts pin to one value by that constant.
func (e *Engine) concretiseAddr(st *State, addr *Term) *Term {
	root := addrRoot(addr)
	if root == nil {
		return addr
	}
	if root.K == KSliceOf {
		root = root.A[0]
	}
	if root.K != KAlloc {
		return addr
	}
	return addr.Map(func(t *Term) *Term {
		if t.K == KIndexAddr && !t.A[1].IsConstInt() {
			if c, ok := e.concreteIndex(st, t.A[1]); ok {
				return IndexAddr(t.A[0], c)
			}
		}
		return nil
	})
}

// Mem exposes a memory read for monitors (no side effects).
func (c *Ctx) Mem(addr *Term) *Term { return c.E.load(c.St, addr, "monitor") }

// Eval / Assume helpers for monitors.
func (c *Ctx) Eval(t *Term) Tri { return c.E.Eval(c.St.facts, t) }

// IsNil decides x == nil.
func (c *Ctx) IsNil(x *Term) Tri { return c.E.Eval(c.St.facts, Bin("==", x, Nil())) }

// describe frames for diagnostics.
func (st *State) where() string {
	var p []string
	for _, f := range st.frames {
		p = append(p, fmt.Sprintf("%s.b%d", f.fn.Name(), f.block.Index))
	}
	return strings.Join(p, ">")
}

// SortedProblems returns problems in a stable order.
func (e *Engine) SortedProblems() []Problem {
	ps := append([]Problem(nil), e.Problems...)
	sort.Slice(ps, func(i, j int) bool {
		if ps[i].Pos.Filename != ps[j].Pos.Filename {
			return ps[i].Pos.Filename < ps[j].Pos.Filename
		}
		if ps[i].Pos.Line != ps[j].Pos.Line {
			return ps[i].Pos.Line < ps[j].Pos.Line
		}
		return ps[i].Msg < ps[j].Msg
	})
	return ps
}

// unwrapField reports, for an in-package type whose method set has `Unwrap() error`
// implemented as "return <receiver>.<field>", the index of that field and whether the
// receiver is a pointer.
func (e *Engine) unwrapField(t types.Type) (idx int, byPtr bool, ok bool) {
	if e.unwrapIdx == nil {
		e.unwrapIdx = map[string][3]int{}
	}
	key := typeKey(t)
	if c, hit := e.unwrapIdx[key]; hit {
		return c[0], c[1] == 1, c[2] == 1
	}
	res := [3]int{}
	defer func() { e.unwrapIdx[key] = res }()
	sel := e.Cfg.Prog.MethodSets.MethodSet(t).Lookup(e.Cfg.Pkg.Pkg, "Unwrap")
	if sel == nil {
		// exported Unwrap is looked up without a package
		sel = e.Cfg.Prog.MethodSets.MethodSet(t).Lookup(nil, "Unwrap")
	}
	if sel == nil {
		return 0, false, false
	}
	fn := e.Cfg.Prog.MethodValue(sel)
	if fn == nil || fn.Pkg != e.Cfg.Pkg || len(fn.Blocks) != 1 || len(fn.Params) != 1 || fn.Signature.Results().Len() != 1 || fn.Signature.Results().At(0).Type().String() != "error" {
		return 0, false, false
	}
	ret, isRet := fn.Blocks[0].Instrs[len(fn.Blocks[0].Instrs)-1].(*ssa.Return)
	if !isRet || len(ret.Results) != 1 {
		return 0, false, false
	}
	recv := fn.Params[0]
	_, ptr := recv.Type().Underlying().(*types.Pointer)
	switch v := ret.Results[0].(type) {
	case *ssa.UnOp: // *(&recv.field)
		if fa, isFA := v.X.(*ssa.FieldAddr); isFA && v.Op == token.MUL && fa.X == recv {
			res = [3]int{fa.Field, 1, 1}
		}
	case *ssa.Field:
		if v.X == recv {
			res = [3]int{v.Field, 0, 1}
		} else if ld, isLd := v.X.(*ssa.UnOp); isLd && ld.Op == token.MUL && ld.X == recv {
			res = [3]int{v.Field, 1, 1}
		}
	}
	_ = ptr
	// the dynamic type boxed must be the receiver type of the found method
	if res[2] == 1 {
		_, boxedPtr := t.Underlying().(*types.Pointer)
		if (res[1] == 1) != boxedPtr {
			// a value boxed while the method has a pointer receiver (or the reverse through the
			// method set of *T): only the plain cases are modelled
			if !(res[1] == 0 && boxedPtr) {
				res = [3]int{}
			} else {
				res = [3]int{res[0], 1, 1} // value-receiver method reached through a pointer: read the field through it
			}
		}
	}
	return res[0], res[1] == 1, res[2] == 1
}
