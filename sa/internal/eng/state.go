package eng

import (
	"fmt"
	"go/token"
	"go/types"
	"sort"
	"strings"

	"golang.org/x/tools/go/ssa"
)

// Event is anything the monitors are told about.
type Event struct {
	Kind     string // call, enter, exit, task-enter, task-exit, store, mapupdate, mapdelete, go, defer, send, recv, select, next, branch, return, panic, alloc
	Class    string // classification of calls (see classify.go); for select: "blocking"/"nonblocking"
	Site     string
	Pos      token.Position
	Instr    ssa.Instruction
	Fn       *ssa.Function // function containing the instruction
	Depth    int           // inline depth of the frame (0 = root)
	FrameCtx string        // call string of the frame the event happened in

	Callee  *ssa.Function // static callee or inlined function
	Method  *types.Func   // invoked interface method
	FnTerm  *Term         // dynamic callee value
	Recv    *Term
	Args    []*Term // includes receiver at 0 for static method calls (as in ssa)
	Results []*Term

	Addr, Val *Term // store/mapupdate(map=Addr,key=Key)/send(chan=Addr)
	Key       *Term
	Volatile  bool

	Cond    *Term // branch
	Taken   bool  // branch: true edge taken
	Decided bool  // branch: outcome was implied by facts
	Succ    *ssa.BasicBlock

	Chosen int          // select: chosen case, -1 default
	Cases  []SelectCase // select
	InTask bool
}

// SelectCase describes one case of a select.
type SelectCase struct {
	Send bool
	Chan *Term
	Val  *Term
}

// MState is an immutable monitor state.
type MState interface {
	Key() string
	Rename(sub func(*Term) *Term) MState
	Terms() []*Term
}

// Monitor observes events along every abstract path.
type Monitor interface {
	Name() string
	Init() MState
	OnEvent(c *Ctx, ms MState, ev *Event) MState
}

// Ctx is what a monitor sees when an event is delivered.
type Ctx struct {
	E  *Engine
	St *State
}

// Frame is one (inlined) activation.
type Frame struct {
	fn     *ssa.Function
	block  *ssa.BasicBlock
	prev   *ssa.BasicBlock
	pc     int
	env    map[ssa.Value]*Term
	free   []*Term
	defers []deferred
	ctx    string // call string
	call   ssa.CallInstruction
	isTask bool
	depth  int
}

type deferred struct {
	call ssa.CallInstruction
	fn   *Term
	args []*Term
	site string
}

// PathNode is a persistent list of what happened on the way to a state.
type PathNode struct {
	Parent *PathNode
	Text   string
	Pos    token.Position
	n      int
}

// State is one abstract state.
type State struct {
	frames []*Frame
	mem    map[*Term]*Term
	dirty  map[*Term][]*Term // map value term -> updated keys
	facts  *Facts
	mon    []MState
	held   int
	path   *PathNode
	inTask int
}

// Facts of the state.
func (s *State) Facts() *Facts { return s.facts }

// Path returns the witness path from the root.
func (s *State) Path() []string {
	var out []string
	for p := s.path; p != nil; p = p.Parent {
		t := p.Text
		if p.Pos.IsValid() {
			t += fmt.Sprintf(" (%s:%d)", shortFile(p.Pos.Filename), p.Pos.Line)
		}
		out = append(out, t)
	}
	for i, j := 0, len(out)-1; i < j; i, j = i+1, j-1 {
		out[i], out[j] = out[j], out[i]
	}
	return out
}

func shortFile(f string) string {
	if i := strings.LastIndex(f, "/"); i >= 0 {
		return f[i+1:]
	}
	return f
}

func (s *State) note(text string, pos token.Position) {
	n := 1
	if s.path != nil {
		n = s.path.n + 1
	}
	s.path = &PathNode{Parent: s.path, Text: text, Pos: pos, n: n}
}

func (s *State) top() *Frame { return s.frames[len(s.frames)-1] }

func (s *State) clone() *State {
	n := &State{
		frames: make([]*Frame, len(s.frames)),
		mem:    make(map[*Term]*Term, len(s.mem)),
		dirty:  make(map[*Term][]*Term, len(s.dirty)),
		facts:  s.facts.clone(),
		mon:    append([]MState(nil), s.mon...),
		held:   s.held,
		path:   s.path,
		inTask: s.inTask,
	}
	for i, f := range s.frames {
		nf := *f
		nf.env = make(map[ssa.Value]*Term, len(f.env))
		for k, v := range f.env {
			nf.env[k] = v
		}
		nf.free = append([]*Term(nil), f.free...)
		nf.defers = append([]deferred(nil), f.defers...)
		n.frames[i] = &nf
	}
	for k, v := range s.mem {
		n.mem[k] = v
	}
	for k, v := range s.dirty {
		n.dirty[k] = append([]*Term(nil), v...)
	}
	return n
}

// rename applies sub to every term of the state. drop selects facts to delete
// (evaluated on the pre-rename atom).
func (s *State) rename(sub func(*Term) *Term, drop func(*Term) bool) {
	for _, f := range s.frames {
		for k, v := range f.env {
			f.env[k] = v.Map(sub)
		}
		for i, v := range f.free {
			f.free[i] = v.Map(sub)
		}
		for i := range f.defers {
			d := &f.defers[i]
			d.fn = d.fn.Map(sub)
			na := make([]*Term, len(d.args))
			for j, a := range d.args {
				na[j] = a.Map(sub)
			}
			d.args = na
		}
	}
	nm := make(map[*Term]*Term, len(s.mem))
	for k, v := range s.mem {
		nm[k.Map(sub)] = v.Map(sub)
	}
	s.mem = nm
	nd := make(map[*Term][]*Term, len(s.dirty))
	for k, v := range s.dirty {
		nv := make([]*Term, len(v))
		for i, x := range v {
			nv[i] = x.Map(sub)
		}
		nd[k.Map(sub)] = nv
	}
	s.dirty = nd
	s.facts.rename(sub, drop)
	for i, m := range s.mon {
		if m != nil {
			s.mon[i] = m.Rename(sub)
		}
	}
}

// shiftSite ages everything created at site: generation 0 (latest) becomes 1
// (the previous occurrence, facts kept), generation 1 becomes 2 (some older
// occurrence: stands for many, facts and cell contents dropped).
func (s *State) shiftSite(site string) { s.shiftSiteSub(site) }

// shiftSiteSub is shiftSite returning the substitution that was applied (nil
// if nothing referred to the site), so that callers can age terms they hold
// outside the state.
func (s *State) shiftSiteSub(site string) func(*Term) *Term {
	isSite := func(t *Term) bool {
		switch t.K {
		case KEv, KEvArg, KAlloc, KMake, KSym, KRange:
			return t.S == site
		}
		return false
	}
	any := false
	chk := func(t *Term) {
		if !any && t != nil {
			t.Walk(func(n *Term) {
				if isSite(n) {
					any = true
				}
			})
		}
	}
	for _, f := range s.frames {
		for _, v := range f.env {
			chk(v)
		}
		for _, v := range f.free {
			chk(v)
		}
		for _, d := range f.defers {
			chk(d.fn)
			for _, a := range d.args {
				chk(a)
			}
		}
	}
	for k, v := range s.mem {
		chk(k)
		chk(v)
	}
	for k := range s.facts.b {
		chk(k)
	}
	for k := range s.facts.bnd {
		chk(k)
	}
	for k := range s.facts.dyn {
		chk(k)
	}
	for _, m := range s.mon {
		if m != nil {
			for _, t := range m.Terms() {
				chk(t)
			}
		}
	}
	sub := func(t *Term) *Term {
		if isSite(t) && t.G < 2 {
			c := *t
			c.G = t.G + 1
			return mk(c)
		}
		return nil
	}
	if !any {
		return sub
	}
	// facts about generation >= 1 are dropped (after the shift they would
	// describe a merged "older" occurrence)
	drop := func(t *Term) bool {
		d := false
		t.Walk(func(n *Term) {
			if isSite(n) && n.G >= 1 {
				d = true
			}
		})
		return d
	}
	for k := range s.mem {
		if k.K == KAlloc && k.S == site && k.G >= 1 {
			delete(s.mem, k)
		}
	}
	s.rename(sub, drop)
	return sub
}

// key is the canonical string identifying the abstract state.
func (s *State) key() string {
	var sb strings.Builder
	for _, f := range s.frames {
		sb.WriteString(f.ctx)
		sb.WriteByte('/')
		sb.WriteString(f.fn.String())
		fmt.Fprintf(&sb, "@%d.%d", f.block.Index, f.pc)
		if f.prev != nil && f.pc == 0 {
			// no phis evaluated yet only at entry; prev irrelevant afterwards
		}
		var es []string
		for k, v := range f.env {
			es = append(es, k.Name()+"="+v.key)
		}
		sort.Strings(es)
		sb.WriteString("{" + strings.Join(es, ",") + "}")
		for i, v := range f.free {
			fmt.Fprintf(&sb, "F%d=%s,", i, v.key)
		}
		for _, d := range f.defers {
			sb.WriteString("D[" + d.site + ":" + d.fn.Key())
			for _, a := range d.args {
				sb.WriteString("," + a.key)
			}
			sb.WriteString("]")
		}
		if f.isTask {
			sb.WriteString("T")
		}
		sb.WriteByte('|')
	}
	var ms []string
	for k, v := range s.mem {
		ms = append(ms, k.key+":="+v.key)
	}
	sort.Strings(ms)
	sb.WriteString("M{" + strings.Join(ms, ";") + "}")
	var ds []string
	for k, v := range s.dirty {
		var ks []string
		for _, x := range v {
			ks = append(ks, x.key)
		}
		sort.Strings(ks)
		ds = append(ds, k.key+"~"+strings.Join(ks, ","))
	}
	sort.Strings(ds)
	sb.WriteString("U{" + strings.Join(ds, ";") + "}")
	sb.WriteString("F{" + s.facts.key() + "}")
	for i, m := range s.mon {
		if m != nil {
			fmt.Fprintf(&sb, "m%d<%s>", i, m.Key())
		}
	}
	fmt.Fprintf(&sb, "h%d", s.held)
	return sb.String()
}

// gc removes local cells that are no longer reachable.
func (s *State) gc() {
	reach := map[*Term]bool{}
	var visit func(t *Term)
	visit = func(t *Term) {
		if t == nil {
			return
		}
		t.Walk(func(n *Term) {
			if n.K == KAlloc && !reach[n] {
				reach[n] = true
				if v, ok := s.mem[n]; ok {
					visit(v)
				}
			}
		})
	}
	for _, f := range s.frames {
		for _, v := range f.env {
			visit(v)
		}
		for _, v := range f.free {
			visit(v)
		}
		for _, d := range f.defers {
			visit(d.fn)
			for _, a := range d.args {
				visit(a)
			}
		}
	}
	for _, m := range s.mon {
		if m != nil {
			for _, t := range m.Terms() {
				visit(t)
			}
		}
	}
	// non-local cells keep whatever they point to alive
	for k, v := range s.mem {
		if k.K != KAlloc {
			root := addrRoot(k)
			if root == nil || root.K != KAlloc {
				visit(v)
			}
		}
	}
	for k := range s.mem {
		root := addrRoot(k)
		if root != nil && root.K == KAlloc && !reach[root] {
			delete(s.mem, k)
		}
	}
	for k := range s.dirty {
		if (k.K == KMake) && !s.termReachable(k) {
			delete(s.dirty, k)
		}
	}
}

func (s *State) termReachable(x *Term) bool {
	for _, f := range s.frames {
		for _, v := range f.env {
			if v.Contains(x) {
				return true
			}
		}
		for _, v := range f.free {
			if v.Contains(x) {
				return true
			}
		}
	}
	for k, v := range s.mem {
		if k.Contains(x) || v.Contains(x) {
			return true
		}
	}
	for _, m := range s.mon {
		if m != nil {
			for _, t := range m.Terms() {
				if t.Contains(x) {
					return true
				}
			}
		}
	}
	return false
}

// addrRoot returns the root object of an address term.
func addrRoot(a *Term) *Term {
	for a != nil {
		switch a.K {
		case KFieldAddr, KIndexAddr:
			a = a.A[0]
		default:
			return a
		}
	}
	return nil
}
