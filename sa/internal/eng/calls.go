package eng

import (
	"fmt"
	"go/types"
	"strings"

	"golang.org/x/tools/go/ssa"
)

// doCall handles a call instruction (or a deferred call when d != nil).
// It returns cont=false when the path ended, pushed=true when a new frame was
// pushed (the caller must not advance its pc).
func (e *Engine) doCall(st *State, fr *Frame, call ssa.CallInstruction, val ssa.Value, d *deferred) (cont, pushed bool) {
	c := call.Common()
	site := e.site(fr, call)
	if d != nil {
		site = d.site + "!run"
	}
	ci := &CallInfo{Instr: call, Common: c, Fn: fr.fn, Depth: fr.depth, Deferred: d != nil}
	// evaluate callee and arguments
	if d != nil {
		ci.FnTerm = d.fn
		ci.Args = d.args
	} else {
		ci.FnTerm = e.value(st, fr, c.Value)
		for _, a := range c.Args {
			ci.Args = append(ci.Args, e.value(st, fr, a))
		}
	}
	if c.IsInvoke() {
		ci.IsInvoke = true
		ci.Method = c.Method
		ci.Recv = ci.FnTerm
	} else {
		ci.Static = c.StaticCallee()
		if ci.Static == nil {
			// dynamic call: maybe a known closure or function value
			switch ci.FnTerm.K {
			case KClosure, KFunc:
				if f, ok := ci.FnTerm.Aux.(*ssa.Function); ok && f != nil {
					ci.Static = f
				}
			}
		}
		// a few standard iterator constructors are replaced by in-package models of the same
		// behaviour (see load.modelsSource), which the engine then inlines like any other code
		if f := ci.Static; f != nil && f.Pkg != e.Cfg.Pkg {
			if mname, ok := map[string]string{"slices.All": "flytsaModelSlicesAll", "slices.Values": "flytsaModelSlicesValues", "maps.All": "flytsaModelMapsAll", "maps.Insert": "flytsaModelMapsInsert", "(*sync.Once).Do": "flytsaModelOnceDo", "(time.Duration).Nanoseconds": "flytsaModelIdentity"}[CalleeName(f)]; ok {
				if mf := e.Cfg.Pkg.Func(mname); mf != nil {
					ci.Static = mf
					ci.FnTerm = Func(mf.String(), mf)
				}
			}
		}
		// a method value (x.M stored in a variable, then called) is a closure over a synthetic
		// wrapper: calling it is calling the method on the bound receiver
		if f := ci.Static; f != nil && strings.HasPrefix(f.Synthetic, "bound method wrapper") && ci.FnTerm != nil && ci.FnTerm.K == KClosure && len(ci.FnTerm.A) >= 1 {
			if obj, ok := f.Object().(*types.Func); ok {
				if target := e.Cfg.Prog.FuncValue(obj); target != nil {
					ci.Static = target
					ci.Args = append([]*Term{ci.FnTerm.A[0]}, ci.Args...)
					ci.FnTerm = Func(target.String(), target)
				}
			}
		}
		if _, isB := c.Value.(*ssa.Builtin); isB {
			e.builtin(st, fr, call, val, c.Value.(*ssa.Builtin), ci.Args, site)
			return true, false
		}
	}
	bind := func(r []*Term) {
		if val == nil {
			return
		}
		switch len(r) {
		case 0:
			fr.env[val] = Tuple()
		case 1:
			fr.env[val] = r[0]
		default:
			fr.env[val] = Tuple(r...)
		}
	}
	var disp *Disposition
	if e.Cfg.Classify != nil {
		disp = e.Cfg.Classify(ci)
	}
	if disp == nil && ci.IsInvoke && ci.Recv != nil && ci.Recv.K == KBox && ci.Recv.T != nil {
		// the dynamic type of the receiver is known: resolve the interface call statically
		if sel := e.Cfg.Prog.MethodSets.MethodSet(ci.Recv.T).Lookup(ci.Method.Pkg(), ci.Method.Name()); sel != nil {
			if fn := e.Cfg.Prog.MethodValue(sel); fn != nil && len(fn.Blocks) > 0 && (fn.Pkg == e.Cfg.Pkg || parentPkg(fn) == e.Cfg.Pkg) {
				ci.IsInvoke = false
				ci.Static = fn
				ci.Args = append([]*Term{ci.Recv.A[0]}, ci.Args...)
				ci.Method = nil
				ci.Recv = nil
			}
		}
	}
	if disp == nil {
		disp = &Disposition{}
	}
	if disp.Act == ActDefault {
		e.defaultDisposition(st, ci, disp)
	}
	nres := c.Signature().Results().Len()
	switch disp.Act {
	case ActInline:
		fn := ci.Static
		if fn == nil || len(fn.Blocks) == 0 {
			e.problem("inline", "cannot inline "+ci.FnTerm.Pretty(), e.Pos(call))
			break
		}
		for _, f := range st.frames {
			if f.fn == fn {
				e.problem("recursion", "static recursion through "+fn.String(), e.Pos(call))
				disp.Act = ActEvent
				disp.Class = "recursion:" + fn.String()
			}
		}
		if len(st.frames) > e.Cfg.MaxDepth+1 {
			e.problem("depth", fmt.Sprintf("inline depth bound %d reached at %s", e.Cfg.MaxDepth, fn), e.Pos(call))
			disp.Act = ActEvent
			disp.Class = "toodeep:" + fn.String()
		}
		if disp.Act == ActInline {
			e.Inlined[fn] = true
			ev := &Event{Kind: "enter", Class: disp.Class, Instr: call, Fn: fr.fn, Depth: fr.depth, Pos: e.Pos(call), Site: site, Callee: fn, Args: ci.Args, FnTerm: ci.FnTerm}
			if !e.deliver(st, ev) {
				return false, false
			}
			e.pushFrame(st, fr, fn, call, ci, site, false)
			return true, true
		}
	}
	// event
	if sub := st.shiftSiteSub(site); sub != nil {
		// the arguments were evaluated before ageing: age them the same way
		na := make([]*Term, len(ci.Args))
		for i, a := range ci.Args {
			na[i] = a.Map(sub)
		}
		ci.Args = na
		if ci.FnTerm != nil {
			ci.FnTerm = ci.FnTerm.Map(sub)
		}
		if ci.Recv != nil {
			ci.Recv = ci.Recv.Map(sub)
		}
	}
	e.SiteClass[site] = disp.Class
	var res []*Term
	if disp.Results != nil {
		res = disp.Results
	} else if m := e.model(st, ci, site); m != nil {
		res = m
	} else {
		for k := 0; k < nres; k++ {
			res = append(res, Ev(site, k, 0))
		}
	}
	ev := &Event{Kind: "call", Class: disp.Class, Instr: call, Fn: fr.fn, Depth: fr.depth, Pos: e.Pos(call), Site: site,
		Callee: ci.Static, Method: ci.Method, FnTerm: ci.FnTerm, Recv: ci.Recv, Args: ci.Args, Results: res}
	st.note("event "+disp.Class, ev.Pos)
	bind(res)
	e.havocEscaped(st, ci, disp, site)
	if !e.deliver(st, ev) {
		return false, false
	}
	// alias arguments
	for _, ai := range disp.AliasArgs {
		if ai < len(ci.Args) {
			old := ci.Args[ai]
			if old.K == KParam || old.K == KNil || old.K == KConst {
				continue
			}
			al := EvArg(site, ai, 0)
			st.rename(func(t *Term) *Term {
				if t == old {
					return al
				}
				return nil
			}, nil)
		}
	}
	if disp.TaskArg > 0 && disp.TaskArg <= len(ci.Args) {
		t := ci.Args[disp.TaskArg-1]
		if f, ok := t.Aux.(*ssa.Function); ok && (t.K == KClosure || t.K == KFunc) && f != nil && len(f.Blocks) > 0 {
			if d == nil {
				fr.pc++
			}
			tci := &CallInfo{FnTerm: t, Static: f}
			tev := &Event{Kind: "task-enter", Instr: call, Fn: fr.fn, Depth: fr.depth, Pos: e.Pos(call), Site: site, Callee: f, FnTerm: t}
			st.inTask++
			if !e.deliver(st, tev) {
				return false, false
			}
			e.Inlined[f] = true
			e.pushFrame(st, fr, f, call, tci, site+"$task", true)
			return true, true
		}
		e.problem("task", "task argument is not a known closure: "+t.Pretty(), e.Pos(call))
	}
	return true, false
}

// pureCallee lists library functions that do not write through their arguments
// (or whose writes are modelled by the monitors: sync primitives).
func pureCallee(name string) bool {
	for _, p := range []string{"fmt.", "errors.", "(*sync.", "sync.", "time.", "(*time.", "(time.", "context.", "reflect.", "(reflect.", "(*reflect.", "strings.", "strconv.", "encoding/json.Marshal", "maps.Clone", "maps.Keys", "slices.Clone", "sort.", "math."} {
		if strings.HasPrefix(name, p) {
			return true
		}
	}
	return false
}

// havocEscaped forgets the content of every local cell whose address is
// handed to an opaque callee (user callback, unknown function value, library
// function that may write through pointers).
func (e *Engine) havocEscaped(st *State, ci *CallInfo, disp *Disposition, site string) {
	if ci.Static != nil {
		if pureCallee(CalleeName(ci.Static)) {
			return
		}
		if ci.Static.Pkg == e.Cfg.Pkg || parentPkg(ci.Static) == e.Cfg.Pkg {
			// summarised in-package function: its own verification covers its effects
			return
		}
	}
	seen := map[*Term]bool{}
	var esc func(t *Term)
	esc = func(t *Term) {
		if t == nil {
			return
		}
		t.Walk(func(n *Term) {
			if n.K == KAlloc && !seen[n] {
				seen[n] = true
				if v, ok := st.mem[n]; ok {
					esc(v)
				}
				st.mem[n] = Unknown("escaped|" + site)
			}
		})
	}
	for _, a := range ci.Args {
		esc(a)
	}
	if ci.FnTerm != nil && ci.FnTerm.K == KClosure {
		esc(ci.FnTerm)
	}
}

func (e *Engine) pushFrame(st *State, caller *Frame, fn *ssa.Function, call ssa.CallInstruction, ci *CallInfo, site string, task bool) {
	// prune caller env to what is live after the call
	fi := e.info(caller.fn)
	idx := caller.pc
	if task {
		// pc already advanced
		idx = caller.pc - 1
	}
	live := fi.liveBefore(caller.block, idx+1)
	if _, isRD := caller.block.Instrs[caller.pc].(*ssa.RunDefers); isRD {
		live = fi.liveBefore(caller.block, caller.pc)
	}
	for k := range caller.env {
		if !live[k] {
			delete(caller.env, k)
		}
	}
	nf := &Frame{fn: fn, env: map[ssa.Value]*Term{}, ctx: site, call: call, isTask: task, depth: caller.depth + 1}
	if !task {
		for i, p := range fn.Params {
			if i < len(ci.Args) {
				nf.env[p] = ci.Args[i]
			}
		}
	}
	if ci.FnTerm != nil && ci.FnTerm.K == KClosure {
		nf.free = append([]*Term(nil), ci.FnTerm.A...)
	}
	st.frames = append(st.frames, nf)
	nf.block = fn.Blocks[0]
	nf.pc = 0
	st.note("enter "+fn.Name(), e.Cfg.Fset.Position(fn.Pos()))
}

// defaultDisposition fills in the engine's own classification.
func (e *Engine) defaultDisposition(st *State, ci *CallInfo, d *Disposition) {
	switch {
	case ci.IsInvoke:
		d.Act = ActEvent
		if d.Class == "" {
			d.Class = "invoke:" + recvTypeName(ci.Common.Value.Type()) + "." + ci.Method.Name()
		}
	case ci.Static != nil:
		fn := ci.Static
		inPkg := fn.Pkg == e.Cfg.Pkg || (fn.Pkg == nil && parentPkg(fn) == e.Cfg.Pkg)
		if inPkg && len(fn.Blocks) > 0 {
			d.Act = ActInline
			if d.Class == "" {
				d.Class = "inline:" + fn.String()
			}
		} else {
			d.Act = ActEvent
			if d.Class == "" {
				d.Class = "call:" + CalleeName(fn)
			}
		}
	default:
		d.Act = ActEvent
		if d.Class == "" {
			d.Class = "dyn:" + DescribeFnTerm(ci.FnTerm)
		}
	}
}

// CalleeName is the full name of a function; instances of generic functions
// are named after their origin (maps.Clone, not maps.Clone[...]).
func CalleeName(fn *ssa.Function) string {
	if o := fn.Origin(); o != nil {
		return o.String()
	}
	return fn.String()
}

func parentPkg(fn *ssa.Function) *ssa.Package {
	for fn != nil {
		if fn.Pkg != nil {
			return fn.Pkg
		}
		if fn.Parent() != nil {
			fn = fn.Parent()
			continue
		}
		if o := fn.Origin(); o != nil && o != fn {
			fn = o
			continue
		}
		return nil
	}
	return nil
}

func recvTypeName(t types.Type) string {
	return types.TypeString(t, func(p *types.Package) string { return p.Name() })
}

// DescribeFnTerm names a dynamic callee by where it came from.
func DescribeFnTerm(t *Term) string {
	switch t.K {
	case KLoad:
		return "load(" + DescribeAddr(t.A[0]) + ")"
	case KParam:
		return "param:" + t.S
	case KFree:
		return "free:" + t.S
	case KField:
		return fmt.Sprintf("field%d(%s)", t.I, DescribeFnTerm(t.A[0]))
	case KEv:
		return "ev"
	case KTA:
		return "ta(" + DescribeFnTerm(t.A[0]) + ")"
	}
	return t.K.String()
}

// DescribeAddr renders an address structurally (field indexes over roots).
func DescribeAddr(a *Term) string {
	switch a.K {
	case KFieldAddr:
		return fmt.Sprintf("%s.f%d", DescribeAddr(a.A[0]), a.I)
	case KParam:
		return "param:" + a.S
	case KFree:
		return "free:" + a.S
	case KLoad:
		return "*" + DescribeAddr(a.A[0])
	case KAlloc:
		return "cell"
	}
	return a.K.String()
}

// model gives results for well-known library functions.
func (e *Engine) model(st *State, ci *CallInfo, site string) []*Term {
	if ci.Static == nil {
		return nil
	}
	name := CalleeName(ci.Static)
	switch name {
	case "fmt.Errorf":
		return []*Term{e.modelErrorf(st, ci, site)}
	case "errors.New":
		return []*Term{Fresh(site)}
	case "errors.Join":
		var xs []*Term
		if len(ci.Args) == 1 {
			for _, el := range e.sliceElems(st, ci.Args[0]) {
				xs = append(xs, stripBox(el))
			}
		}
		if len(xs) == 0 {
			return []*Term{Fresh(site)}
		}
		return []*Term{Wrap(xs...)}
	case "fmt.Sprintf", "fmt.Sprint", "fmt.Sprintln":
		return []*Term{Fresh(site)}
	}
	if pureFuncs[name] {
		n := ci.Static.Signature.Results().Len()
		out := make([]*Term, n)
		for k := 0; k < n; k++ {
			out[k] = Pure(name, k, ci.Args...)
		}
		return out
	}
	return nil
}

// pureFuncs are library functions whose results are determined by their
// arguments (for the purposes of provenance): equal arguments, equal term.
var pureFuncs = map[string]bool{
	"reflect.ValueOf": true, "reflect.TypeOf": true,
	"(reflect.Value).Kind": true, "(reflect.Value).Len": true, "(reflect.Value).Type": true, "(reflect.Value).Elem": true,
	"(reflect.Value).Index": true, "(reflect.Value).IsNil": true, "(reflect.Value).Interface": true, "(reflect.Value).IsValid": true,
	"(reflect.Value).CanSet": true, "(reflect.Value).CanInterface": true, "(reflect.Value).IsZero": true,
	"encoding/json.Marshal": true,
}

func stripBox(t *Term) *Term {
	for t != nil && t.K == KBox {
		t = t.A[0]
	}
	return t
}

// SliceElems exposes sliceElems to monitors.
func (e *Engine) SliceElems(st *State, s *Term) []*Term { return e.sliceElems(st, s) }

// sliceElems returns the elements of a variadic slice built from a local array.
func (e *Engine) sliceElems(st *State, s *Term) []*Term {
	if s.K == KNil {
		return nil
	}
	if s.K == KSliceOf && s.A[0].K == KAlloc {
		arr := expandZero(e.load(st, s.A[0], "varargs"))
		if arr.K == KArray {
			return arr.A
		}
	}
	return []*Term{Unknown("varargs")}
}

// modelErrorf parses the format string: every %w argument is wrapped.
func (e *Engine) modelErrorf(st *State, ci *CallInfo, site string) *Term {
	if len(ci.Args) < 2 {
		return Fresh(site)
	}
	format, ok := ci.Args[0].StringConst()
	if !ok {
		return Unknown(site)
	}
	args := e.sliceElems(st, ci.Args[1])
	var wrapped []*Term
	ai := 0
	for i := 0; i < len(format); i++ {
		if format[i] != '%' {
			continue
		}
		i++
		if i >= len(format) {
			break
		}
		if format[i] == '%' {
			continue
		}
		// flags, width, precision, explicit index not expected in flyt; skip flags/digits
		for i < len(format) && strings.ContainsRune("+-# 0123456789.", rune(format[i])) {
			i++
		}
		if i < len(format) && format[i] == '[' {
			// explicit argument indexes: give up precision
			return Unknown(site)
		}
		if i >= len(format) {
			break
		}
		verb := format[i]
		if verb == '*' {
			ai++
			continue
		}
		if ai < len(args) {
			if verb == 'w' {
				wrapped = append(wrapped, stripBox(args[ai]))
			}
		}
		ai++
	}
	if len(wrapped) == 0 {
		return Fresh(site)
	}
	return Wrap(wrapped...)
}

func (e *Engine) builtin(st *State, fr *Frame, call ssa.CallInstruction, val ssa.Value, b *ssa.Builtin, args []*Term, site string) {
	set := func(t *Term) {
		if val != nil {
			fr.env[val] = t
		}
	}
	switch b.Name() {
	case "len":
		x := args[0]
		if _, isMap := call.Common().Args[0].Type().Underlying().(*types.Map); isMap {
			e.deliver(st, &Event{Kind: "len", Instr: call, Fn: fr.fn, Depth: fr.depth, Pos: e.Pos(call), Site: site, Addr: x})
		}
		switch {
		case x.K == KMake && len(x.A) >= 1 && x.A[0] != nil:
			if _, isMap := x.T.Underlying().(*types.Map); !isMap {
				set(x.A[0])
				return
			}
			set(Len(x))
		case x.K == KNil:
			set(ConstInt(0))
		case x.K == KConst && !x.IsInt:
			if s, ok := x.StringConst(); ok {
				set(ConstInt(int64(len(s))))
				return
			}
			set(Len(x))
		case x.K == KSliceOf:
			set(e.LenTerm(st, x))
		default:
			set(e.lenOf(x))
		}
	case "cap":
		set(Cap(args[0]))
	case "append":
		if sub := st.shiftSiteSub(site); sub != nil {
			na := make([]*Term, len(args))
			for i, a := range args {
				na[i] = a.Map(sub)
			}
			args = na
		}
		r := Make(site, 0, nil, nil)
		// appending at least one element yields a non-empty slice
		if len(args) == 2 && (args[1].K != KNil) {
			if n := len(e.sliceElems(st, args[1])); n >= 1 && !(n == 1 && e.sliceElems(st, args[1])[0].K == KUnknown) {
				st.facts.bnd[Len(r)] = bound{lo: int64(n), hasLo: true}
			}
		}
		ev := &Event{Kind: "append", Instr: call, Fn: fr.fn, Depth: fr.depth, Pos: e.Pos(call), Site: site, Args: args, Results: []*Term{r}}
		set(r)
		e.deliver(st, ev)
	case "delete":
		e.mapDelete(st, args[0], args[1])
		ev := &Event{Kind: "mapdelete", Instr: call, Fn: fr.fn, Depth: fr.depth, Pos: e.Pos(call), Site: site, Addr: args[0], Key: args[1]}
		e.deliver(st, ev)
	case "close":
		ev := &Event{Kind: "close", Instr: call, Fn: fr.fn, Depth: fr.depth, Pos: e.Pos(call), Site: site, Addr: args[0]}
		e.deliver(st, ev)
	case "clear":
		ev := &Event{Kind: "clear", Instr: call, Fn: fr.fn, Depth: fr.depth, Pos: e.Pos(call), Site: site, Addr: args[0]}
		e.deliver(st, ev)
	case "copy":
		st.shiftSite(site)
		ev := &Event{Kind: "copy", Instr: call, Fn: fr.fn, Depth: fr.depth, Pos: e.Pos(call), Site: site, Args: args}
		set(Ev(site, 0, 0))
		e.deliver(st, ev)
	case "min", "max":
		r := Pure("builtin."+b.Name(), 0, args...)
		set(r)
		// bounds of the result from the bounds of the operands
		var lo, hi int64
		hasLo, hasHi := b.Name() == "min", b.Name() == "max"
		_ = hasHi
		first := true
		okLo, okHi := true, true
		for _, a := range args {
			ba := e.bounds(st.facts, a)
			if first {
				lo, hi, okLo, okHi = ba.lo, ba.hi, ba.hasLo, ba.hasHi
				first = false
				continue
			}
			if b.Name() == "max" {
				// lo = max of known los (any known lo is a lower bound), hi = max of his (all needed)
				if ba.hasLo && (!okLo || ba.lo > lo) {
					lo, okLo = ba.lo, true
				}
				if !ba.hasHi {
					okHi = false
				} else if okHi && ba.hi > hi {
					hi = ba.hi
				}
			} else {
				if ba.hasHi && (!okHi || ba.hi < hi) {
					hi, okHi = ba.hi, true
				}
				if !ba.hasLo {
					okLo = false
				} else if okLo && ba.lo < lo {
					lo = ba.lo
				}
			}
		}
		_ = hasLo
		if okLo || okHi {
			st.facts.bnd[r] = bound{lo: lo, hi: hi, hasLo: okLo, hasHi: okHi}
		}
	case "print", "println":
	case "recover":
		set(Nil())
	default:
		st.shiftSite(site)
		set(Ev(site, 0, 0))
	}
}

// LenTerm returns the length term of a slice/array/string value.
func (e *Engine) LenTerm(st *State, x *Term) *Term {
	if x == nil {
		return nil
	}
	if x.K == KSliceOf {
		base, lo, hi := x.A[0], x.A[1], x.A[2]
		var h *Term
		switch {
		case hi != nil:
			h = hi
		case base.K == KAlloc:
			if t, ok := e.siteType[base.S]; ok {
				if arr, ok := t.Underlying().(*types.Array); ok {
					h = ConstInt(arr.Len())
				}
			}
		default:
			h = e.lenOf(base)
		}
		if h == nil {
			return Len(x)
		}
		if lo == nil {
			return h
		}
		hb, hc := AffParts(h)
		lb, lc := AffParts(lo)
		switch {
		case lb == nil:
			return Aff(hb, hc-lc)
		case hb == lb:
			return ConstInt(hc - lc)
		}
		return Len(x)
	}
	return e.lenOf(x)
}

func (e *Engine) lenOf(x *Term) *Term {
	if x.K == KMake && len(x.A) >= 1 && x.A[0] != nil {
		if _, isMap := x.T.Underlying().(*types.Map); !isMap {
			return x.A[0]
		}
	}
	if x.K == KNil {
		return ConstInt(0)
	}
	return Len(x)
}
