// Package eng is the path-sensitive typestate/provenance interpreter (engine
// LIFE of DESIGN.md §3.2). It explores go/ssa functions over abstract values
// (terms), forking at branches whose outcome the collected facts do not decide,
// merging only identical states, and reports every event (callback, context
// observation, sync operation, heap effect, return) to pluggable monitors.
//
// Nothing here executes flyt code: values are symbolic terms, callbacks are
// opaque events, loops reach a fixpoint by generation-renaming of event
// results and widening of induction variables.
package eng

import (
	"fmt"
	"go/types"
	"sort"
	"strconv"
	"strings"
	"sync"
)

// Kind of a term.
type Kind uint8

const (
	KConst     Kind = iota // constant; S = exact string, I = int value when IsInt
	KNil                   // nil of some pointer/interface/slice/map/func/chan type
	KZero                  // zero value of a (struct/array) type that is not expanded
	KParam                 // parameter of the root function; I = index, S = name
	KFree                  // free variable of the root function (closure analysed standalone)
	KEv                    // result I of the event at site S; G = generation (0 new, 1 old)
	KEvArg                 // alias for argument I of the event at site S (G generation)
	KWrap                  // an error that wraps every A[i] (errors.Is/As reaches them)
	KFresh                 // a new error/value created at site S wrapping nothing
	KBox                   // interface value holding A[0] with dynamic type T
	KStruct                // struct value, A = fields
	KArray                 // array value, A = elements
	KTuple                 // multi-value
	KAlloc                 // address of a local cell allocated at site S; G generation
	KGlobal                // address of package-level variable S
	KFieldAddr             // &A[0].field(I)
	KIndexAddr             // &A[0][A[1]]   (A[0] slice value or array address)
	KLoad                  // symbolic load from non-local address A[0]
	KLen                   // len(A[0])
	KCap                   // cap(A[0])
	KSliceOf               // A[0][A[1]:A[2]] (A[1]/A[2] may be nil)
	KMake                  // make/new object created at site S (maps, slices, chans); G generation; A optional (len)
	KLookup                // A[0][A[1]] value of a map lookup / string index
	KLookupOk              // ok of the comma-ok lookup A[0][A[1]]
	KAff                   // affine integer A[0] + I
	KSym                   // symbolic value S; G generation
	KBin                   // S = op, A[0] op A[1]
	KNot                   // !A[0]
	KNeg                   // -A[0]
	KTA                    // value of A[0].(T)
	KTAOk                  // ok of A[0].(T)
	KClosure               // closure of function S with bindings A
	KFunc                  // function value S
	KConv                  // T(A[0])
	KField                 // field I of non-expanded struct value A[0]
	KRange                 // range iterator over A[0], created at site S
	KPure                  // result I of the deterministic function S applied to A (same arguments, same term)
	KUnknown               // unknown value created at S
)

var kindNames = [...]string{"const", "nil", "zero", "param", "free", "ev", "evarg", "wrap", "fresh", "box", "struct", "array", "tuple", "alloc", "global", "fieldaddr", "indexaddr", "load", "len", "cap", "sliceof", "make", "lookup", "lookupok", "aff", "sym", "bin", "not", "neg", "ta", "taok", "closure", "func", "conv", "field", "range", "pure", "unknown"}

func (k Kind) String() string { return kindNames[k] }

// Term is an interned, immutable abstract value. Pointer equality is
// structural equality.
type Term struct {
	K     Kind
	S     string
	I     int64
	G     int8
	T     types.Type // dynamic/asserted/conversion type where relevant
	A     []*Term
	IsInt bool // KConst with integer value in I
	Aux   any  // *ssa.Function for closures / funcs, not part of the key beyond S
	key   string
	depth int
}

var (
	internMu sync.Mutex
	interned = map[string]*Term{}
)

// ResetInterning drops the intern table (between independent analyses, to
// bound memory).
func ResetInterning() {
	internMu.Lock()
	interned = map[string]*Term{}
	internMu.Unlock()
	typeKeyMu.Lock()
	typeKeyCache = map[types.Type]string{}
	typeKeyMu.Unlock()
}

var (
	typeKeyMu    sync.Mutex
	typeKeyCache = map[types.Type]string{}
)

func typeKey(t types.Type) string {
	if t == nil {
		return ""
	}
	// pointer and slice types are often built on the fly by the rules (a fresh types.Type each
	// time): they are spelled from their element instead of being cached by identity
	switch x := t.(type) {
	case *types.Pointer:
		return "*" + typeKey(x.Elem())
	case *types.Slice:
		return "[]" + typeKey(x.Elem())
	}
	typeKeyMu.Lock()
	defer typeKeyMu.Unlock()
	if s, ok := typeKeyCache[t]; ok {
		return s
	}
	s := strings.ReplaceAll(types.TypeString(t, nil), "interface{}", "any") // one spelling for the empty interface
	if len(typeKeyCache) > 1<<16 {
		typeKeyCache = map[types.Type]string{}
	}
	typeKeyCache[t] = s
	return s
}

func mk(t Term) *Term {
	var sb strings.Builder
	sb.WriteString(t.K.String())
	if t.S != "" {
		sb.WriteByte(':')
		sb.WriteString(t.S)
	}
	if t.I != 0 || t.IsInt || t.K == KParam || t.K == KEv || t.K == KEvArg || t.K == KFieldAddr || t.K == KField || t.K == KAff || t.K == KPure {
		sb.WriteByte('#')
		sb.WriteString(strconv.FormatInt(t.I, 10))
	}
	if t.G == 1 {
		sb.WriteString("~prev")
	} else if t.G >= 2 {
		sb.WriteString("~old")
	}
	if t.T != nil {
		sb.WriteByte('<')
		sb.WriteString(typeKey(t.T))
		sb.WriteByte('>')
	}
	d := 0
	if len(t.A) > 0 {
		sb.WriteByte('(')
		for i, a := range t.A {
			if i > 0 {
				sb.WriteByte(',')
			}
			if a == nil {
				sb.WriteByte('_')
			} else {
				sb.WriteString(a.key)
				if a.depth > d {
					d = a.depth
				}
			}
		}
		sb.WriteByte(')')
	}
	t.key = sb.String()
	t.depth = d + 1
	internMu.Lock()
	defer internMu.Unlock()
	if e, ok := interned[t.key]; ok {
		return e
	}
	p := new(Term)
	*p = t
	interned[t.key] = p
	return p
}

// Key returns the canonical string of the term.
func (t *Term) Key() string {
	if t == nil {
		return "_"
	}
	return t.key
}

func (t *Term) String() string { return t.Pretty() }

// Depth is the nesting depth.
func (t *Term) Depth() int {
	if t == nil {
		return 0
	}
	return t.depth
}

// Constructors -------------------------------------------------------------

func Const(s string, typ types.Type) *Term { return mk(Term{K: KConst, S: s, T: typ}) }
func ConstInt(i int64) *Term               { return mk(Term{K: KConst, I: i, IsInt: true}) }
func ConstBool(b bool) *Term {
	if b {
		return mk(Term{K: KConst, S: "true"})
	}
	return mk(Term{K: KConst, S: "false"})
}
func ConstString(s string) *Term { return mk(Term{K: KConst, S: strconv.Quote(s)}) }
func Nil() *Term                 { return mk(Term{K: KNil}) }
func Zero(t types.Type) *Term    { return mk(Term{K: KZero, T: t}) }
func Param(i int, name string) *Term {
	return mk(Term{K: KParam, I: int64(i), S: name})
}
func Free(i int, name string) *Term         { return mk(Term{K: KFree, I: int64(i), S: name}) }
func Ev(site string, k int, gen int8) *Term { return mk(Term{K: KEv, S: site, I: int64(k), G: gen}) }
func EvArg(site string, k int, gen int8) *Term {
	return mk(Term{K: KEvArg, S: site, I: int64(k), G: gen})
}
func Fresh(site string) *Term   { return mk(Term{K: KFresh, S: site}) }
func Unknown(site string) *Term { return mk(Term{K: KUnknown, S: site}) }
func Sym(name string, gen int8) *Term {
	return mk(Term{K: KSym, S: name, G: gen})
}
func Wrap(xs ...*Term) *Term {
	set := map[*Term]bool{}
	var out []*Term
	for _, x := range xs {
		if x == nil || x.K == KNil {
			continue
		}
		if !set[x] {
			set[x] = true
			out = append(out, x)
		}
	}
	sort.Slice(out, func(i, j int) bool { return out[i].key < out[j].key })
	return mk(Term{K: KWrap, A: out})
}
func Box(t types.Type, x *Term) *Term { return mk(Term{K: KBox, T: t, A: []*Term{x}}) }

// BoxWrapping is a boxed error object that carries (and unwraps to) inner.
func BoxWrapping(t types.Type, x, inner *Term) *Term {
	return mk(Term{K: KBox, T: t, A: []*Term{x, inner}})
}
func Struct(t types.Type, f []*Term) *Term { return mk(Term{K: KStruct, T: t, A: f}) }
func Array(t types.Type, f []*Term) *Term  { return mk(Term{K: KArray, T: t, A: f}) }
func Tuple(f ...*Term) *Term               { return mk(Term{K: KTuple, A: f}) }
func Alloc(site string, gen int8) *Term    { return mk(Term{K: KAlloc, S: site, G: gen}) }
func Global(name string) *Term             { return mk(Term{K: KGlobal, S: name}) }
func FieldAddr(base *Term, i int) *Term {
	return mk(Term{K: KFieldAddr, I: int64(i), A: []*Term{base}})
}
func IndexAddr(base, idx *Term) *Term { return mk(Term{K: KIndexAddr, A: []*Term{base, idx}}) }
func Load(addr *Term) *Term           { return mk(Term{K: KLoad, A: []*Term{addr}}) }
func Len(x *Term) *Term               { return mk(Term{K: KLen, A: []*Term{x}}) }
func Cap(x *Term) *Term               { return mk(Term{K: KCap, A: []*Term{x}}) }
func SliceOf(x, lo, hi *Term) *Term   { return mk(Term{K: KSliceOf, A: []*Term{x, lo, hi}}) }
func Make(site string, gen int8, t types.Type, args ...*Term) *Term {
	return mk(Term{K: KMake, S: site, G: gen, T: t, A: args})
}
func Lookup(m, k *Term) *Term   { return mk(Term{K: KLookup, A: []*Term{m, k}}) }
func LookupOk(m, k *Term) *Term { return mk(Term{K: KLookupOk, A: []*Term{m, k}}) }
func Not(x *Term) *Term {
	if x.K == KNot {
		return x.A[0]
	}
	if x.K == KConst && x.S == "true" {
		return ConstBool(false)
	}
	if x.K == KConst && x.S == "false" {
		return ConstBool(true)
	}
	return mk(Term{K: KNot, A: []*Term{x}})
}
func Neg(x *Term) *Term {
	if x.K == KConst && x.IsInt {
		return ConstInt(-x.I)
	}
	return mk(Term{K: KNeg, A: []*Term{x}})
}
func Bin(op string, a, b *Term) *Term { return mk(Term{K: KBin, S: op, A: []*Term{a, b}}) }
func TA(x *Term, t types.Type) *Term  { return mk(Term{K: KTA, T: t, A: []*Term{x}}) }
func TAOk(x *Term, t types.Type) *Term {
	return mk(Term{K: KTAOk, T: t, A: []*Term{x}})
}
func Closure(name string, fn any, bind []*Term) *Term {
	return mk(Term{K: KClosure, S: name, A: bind, Aux: fn})
}
func Func(name string, fn any) *Term   { return mk(Term{K: KFunc, S: name, Aux: fn}) }
func Conv(t types.Type, x *Term) *Term { return mk(Term{K: KConv, T: t, A: []*Term{x}}) }
func Field(x *Term, i int) *Term       { return mk(Term{K: KField, I: int64(i), A: []*Term{x}}) }
func Range(site string, x *Term) *Term { return mk(Term{K: KRange, S: site, A: []*Term{x}}) }

// Pure is result k of the deterministic function name applied to args.
func Pure(name string, k int, args ...*Term) *Term {
	return mk(Term{K: KPure, S: name, I: int64(k), A: args})
}

// Aff builds base + c, normalising nested affine terms and constants.
func Aff(base *Term, c int64) *Term {
	if base == nil {
		return ConstInt(c)
	}
	if base.K == KConst && base.IsInt {
		return ConstInt(base.I + c)
	}
	if base.K == KAff {
		if len(base.A) == 2 && base.A[1] != nil {
			return Aff2(base.A[0], base.A[1], base.I+c)
		}
		return Aff(base.A[0], base.I+c)
	}
	if c == 0 {
		return base
	}
	return mk(Term{K: KAff, I: c, A: []*Term{base}})
}

// Aff2 builds pos - neg + c (either symbol may be nil).
func Aff2(pos, neg *Term, c int64) *Term {
	if neg == nil {
		return Aff(pos, c)
	}
	if pos == neg {
		return ConstInt(c)
	}
	if neg.K == KConst && neg.IsInt {
		return Aff(pos, c-neg.I)
	}
	if pos != nil && pos.K == KConst && pos.IsInt {
		c += pos.I
		pos = nil
	}
	return mk(Term{K: KAff, I: c, A: []*Term{pos, neg}})
}

// Aff2Parts splits an integer term into pos - neg + c.
func Aff2Parts(t *Term) (pos, neg *Term, c int64) {
	switch {
	case t == nil:
		return nil, nil, 0
	case t.K == KConst && t.IsInt:
		return nil, nil, t.I
	case t.K == KAff:
		if len(t.A) == 2 {
			return t.A[0], t.A[1], t.I
		}
		return t.A[0], nil, t.I
	}
	return t, nil, 0
}

// AffParts splits an integer term into (base, offset); base nil for constants.
// For terms with a negative symbol the base is the whole symbolic part.
func AffParts(t *Term) (*Term, int64) {
	switch {
	case t == nil:
		return nil, 0
	case t.K == KConst && t.IsInt:
		return nil, t.I
	case t.K == KAff:
		if len(t.A) == 2 && t.A[1] != nil {
			return Aff2(t.A[0], t.A[1], 0), t.I
		}
		return t.A[0], t.I
	}
	return t, 0
}

// IsConstInt reports an integer constant.
func (t *Term) IsConstInt() bool { return t != nil && t.K == KConst && t.IsInt }

// IsTrue / IsFalse for boolean constants.
func (t *Term) IsTrue() bool  { return t != nil && t.K == KConst && t.S == "true" }
func (t *Term) IsFalse() bool { return t != nil && t.K == KConst && t.S == "false" }

// StringConst returns the Go string of a string constant term.
func (t *Term) StringConst() (string, bool) {
	if t == nil || t.K != KConst || t.IsInt || len(t.S) < 2 || t.S[0] != '"' {
		return "", false
	}
	s, err := strconv.Unquote(t.S)
	if err != nil {
		return "", false
	}
	return s, true
}

// Map rebuilds the term bottom-up applying f to every node after its
// children were rebuilt. f returns nil to keep the (rebuilt) node.
func (t *Term) Map(f func(*Term) *Term) *Term {
	if t == nil {
		return nil
	}
	var na []*Term
	changed := false
	for i, a := range t.A {
		b := a.Map(f)
		if b != a {
			if !changed {
				na = make([]*Term, len(t.A))
				copy(na, t.A)
				changed = true
			}
			na[i] = b
		}
	}
	cur := t
	if changed {
		c := *t
		c.A = na
		if c.K == KWrap {
			cur = Wrap(na...)
		} else if c.K == KAff {
			if len(na) == 2 {
				cur = Aff2(na[0], na[1], c.I)
			} else {
				cur = Aff(na[0], c.I)
			}
		} else {
			cur = mk(c)
		}
	}
	if r := f(cur); r != nil {
		return r
	}
	return cur
}

// Walk visits every node.
func (t *Term) Walk(f func(*Term)) {
	if t == nil {
		return
	}
	f(t)
	for _, a := range t.A {
		a.Walk(f)
	}
}

// Contains reports whether x occurs in t.
func (t *Term) Contains(x *Term) bool {
	found := false
	t.Walk(func(n *Term) {
		if n == x {
			found = true
		}
	})
	return found
}

// Unwraps reports whether errors.Is(t, x) is guaranteed by construction: t is
// x, or a Wrap chain leading to x (through interface boxing).
func (t *Term) Unwraps(x *Term) bool {
	if t == nil {
		return false
	}
	if t == x {
		return true
	}
	switch t.K {
	case KWrap:
		for _, a := range t.A {
			if a.Unwraps(x) {
				return true
			}
		}
	case KBox:
		if t.A[0].Unwraps(x) {
			return true
		}
		// a boxed error object whose Unwrap method hands out the error it carries
		return len(t.A) > 1 && t.A[1].Unwraps(x)
	}
	return false
}

// WrapLeaves returns the non-wrap terms reachable through Wrap/Box.
func (t *Term) WrapLeaves() []*Term {
	var out []*Term
	var rec func(*Term)
	rec = func(n *Term) {
		switch {
		case n.K == KWrap:
			if len(n.A) == 0 {
				out = append(out, n)
			}
			for _, a := range n.A {
				rec(a)
			}
		case n.K == KBox && len(n.A) > 1:
			rec(n.A[1]) // what the object's Unwrap method returns
		default:
			out = append(out, n)
		}
	}
	if t != nil {
		rec(t)
	}
	return out
}

// Pretty is a compact human-readable rendering.
func (t *Term) Pretty() string {
	if t == nil {
		return "_"
	}
	gen := ""
	if t.G == 1 {
		gen = "'"
	} else if t.G >= 2 {
		gen = "''"
	}
	args := func() string {
		var p []string
		for _, a := range t.A {
			p = append(p, a.Pretty())
		}
		return strings.Join(p, ", ")
	}
	switch t.K {
	case KConst:
		if t.IsInt {
			return strconv.FormatInt(t.I, 10)
		}
		return t.S
	case KNil:
		return "nil"
	case KZero:
		return "zero(" + typeKey(t.T) + ")"
	case KParam:
		return "param:" + t.S
	case KFree:
		return "free:" + t.S
	case KEv:
		return fmt.Sprintf("ev[%s]%s.%d", shortSite(t.S), gen, t.I)
	case KEvArg:
		return fmt.Sprintf("arg[%s]%s.%d", shortSite(t.S), gen, t.I)
	case KWrap:
		return "wrap(" + args() + ")"
	case KFresh:
		return "fresh[" + shortSite(t.S) + "]"
	case KBox:
		return "box<" + typeKey(t.T) + ">(" + args() + ")"
	case KStruct:
		return typeKey(t.T) + "{" + args() + "}"
	case KArray:
		return "[" + args() + "]"
	case KTuple:
		return "(" + args() + ")"
	case KAlloc:
		return "&cell[" + shortSite(t.S) + "]" + gen
	case KGlobal:
		return "&" + t.S
	case KFieldAddr:
		return fmt.Sprintf("&%s.f%d", t.A[0].Pretty(), t.I)
	case KIndexAddr:
		return fmt.Sprintf("&%s[%s]", t.A[0].Pretty(), t.A[1].Pretty())
	case KLoad:
		return "*" + t.A[0].Pretty()
	case KLen:
		return "len(" + args() + ")"
	case KCap:
		return "cap(" + args() + ")"
	case KSliceOf:
		return fmt.Sprintf("%s[%s:%s]", t.A[0].Pretty(), t.A[1].Pretty(), t.A[2].Pretty())
	case KMake:
		return "make[" + shortSite(t.S) + "]" + gen + "<" + typeKey(t.T) + ">(" + args() + ")"
	case KLookup:
		return fmt.Sprintf("%s[%s]", t.A[0].Pretty(), t.A[1].Pretty())
	case KLookupOk:
		return fmt.Sprintf("ok(%s[%s])", t.A[0].Pretty(), t.A[1].Pretty())
	case KAff:
		base := t.A[0].Pretty()
		if len(t.A) == 2 && t.A[1] != nil {
			base = "(" + base + " - " + t.A[1].Pretty() + ")"
		}
		if t.I == 0 {
			return base
		}
		if t.I < 0 {
			return fmt.Sprintf("%s-%d", base, -t.I)
		}
		return fmt.Sprintf("%s+%d", base, t.I)
	case KSym:
		return "$" + t.S + gen
	case KBin:
		return "(" + t.A[0].Pretty() + " " + t.S + " " + t.A[1].Pretty() + ")"
	case KNot:
		return "!" + t.A[0].Pretty()
	case KNeg:
		return "-" + t.A[0].Pretty()
	case KTA:
		return t.A[0].Pretty() + ".(" + typeKey(t.T) + ")"
	case KTAOk:
		return "ok(" + t.A[0].Pretty() + ".(" + typeKey(t.T) + "))"
	case KClosure:
		return "closure " + t.S
	case KFunc:
		return "func " + t.S
	case KConv:
		return typeKey(t.T) + "(" + args() + ")"
	case KField:
		return fmt.Sprintf("%s.f%d", t.A[0].Pretty(), t.I)
	case KRange:
		return "range(" + args() + ")"
	case KPure:
		if t.I != 0 {
			return fmt.Sprintf("%s(%s).%d", t.S, args(), t.I)
		}
		return t.S + "(" + args() + ")"
	case KUnknown:
		return "?[" + shortSite(t.S) + "]"
	}
	return t.key
}

func shortSite(s string) string {
	// sites look like "ctx|fn#blk.idx@file:line"; keep the tail after the last '|'
	if i := strings.LastIndex(s, "|"); i >= 0 {
		s = s[i+1:]
	}
	return s
}
