package eng

import (
	"go/types"
	"sort"
	"strconv"
	"strings"
)

// Tri is a three-valued truth.
type Tri int8

const (
	TriUnknown Tri = 0
	TriTrue    Tri = 1
	TriFalse   Tri = -1
)

func triOf(b bool) Tri {
	if b {
		return TriTrue
	}
	return TriFalse
}

func (t Tri) Not() Tri { return -t }

type bound struct {
	lo, hi       int64
	hasLo, hasHi bool
}

// Facts is the set of path facts of one abstract state.
type Facts struct {
	b   map[*Term]bool
	bnd map[*Term]bound
	dyn map[*Term]types.Type
}

func newFacts() *Facts {
	return &Facts{b: map[*Term]bool{}, bnd: map[*Term]bound{}, dyn: map[*Term]types.Type{}}
}

func (f *Facts) clone() *Facts {
	n := newFacts()
	for k, v := range f.b {
		n.b[k] = v
	}
	for k, v := range f.bnd {
		n.bnd[k] = v
	}
	for k, v := range f.dyn {
		n.dyn[k] = v
	}
	return n
}

func (f *Facts) key() string {
	var parts []string
	for k, v := range f.b {
		parts = append(parts, k.key+"="+strconv.FormatBool(v))
	}
	for k, v := range f.bnd {
		s := k.key + "∈["
		if v.hasLo {
			s += strconv.FormatInt(v.lo, 10)
		}
		s += ","
		if v.hasHi {
			s += strconv.FormatInt(v.hi, 10)
		}
		parts = append(parts, s+"]")
	}
	for k, v := range f.dyn {
		parts = append(parts, k.key+":"+typeKey(v))
	}
	sort.Strings(parts)
	return strings.Join(parts, ";")
}

// Bools exposes the boolean facts (atom -> truth).
func (f *Facts) Bools() map[*Term]bool { return f.b }

// Dyn exposes the known dynamic types.
func (f *Facts) Dyn() map[*Term]types.Type { return f.dyn }

// List returns the facts in readable form (sorted).
func (f *Facts) List() []string {
	var parts []string
	for k, v := range f.b {
		if v {
			parts = append(parts, k.Pretty())
		} else {
			parts = append(parts, "!"+k.Pretty())
		}
	}
	for k, v := range f.bnd {
		s := k.Pretty() + "∈["
		if v.hasLo {
			s += strconv.FormatInt(v.lo, 10)
		}
		s += ","
		if v.hasHi {
			s += strconv.FormatInt(v.hi, 10)
		}
		parts = append(parts, s+"]")
	}
	for k, v := range f.dyn {
		parts = append(parts, "dyn("+k.Pretty()+")="+typeKey(v))
	}
	sort.Strings(parts)
	return parts
}

// rename applies a term substitution to all facts; facts for which drop
// returns true (on the original term) are deleted.
func (f *Facts) rename(sub func(*Term) *Term, drop func(*Term) bool) {
	nb := make(map[*Term]bool, len(f.b))
	for k, v := range f.b {
		if drop != nil && drop(k) {
			continue
		}
		nb[k.Map(sub)] = v
	}
	f.b = nb
	nbd := make(map[*Term]bound, len(f.bnd))
	for k, v := range f.bnd {
		if drop != nil && drop(k) {
			continue
		}
		nbd[k.Map(sub)] = v
	}
	f.bnd = nbd
	nd := make(map[*Term]types.Type, len(f.dyn))
	for k, v := range f.dyn {
		if drop != nil && drop(k) {
			continue
		}
		nd[k.Map(sub)] = v
	}
	f.dyn = nd
}

// canonical boolean form -----------------------------------------------------

func isConstLike(t *Term) bool { return t.K == KConst || t.K == KNil }

// canon returns (atom, negated): cond == atom XOR negated.
func canon(c *Term) (*Term, bool) {
	switch c.K {
	case KNot:
		a, n := canon(c.A[0])
		return a, !n
	case KBin:
		a, b := c.A[0], c.A[1]
		switch c.S {
		case "==", "!=":
			if isConstLike(a) && !isConstLike(b) {
				a, b = b, a
			} else if !isConstLike(b) && a.key > b.key {
				a, b = b, a
			}
			return Bin("==", a, b), c.S == "!="
		case "<":
			return Bin("<", a, b), false
		case ">":
			return Bin("<", b, a), false
		case "<=":
			return Bin("<", b, a), true
		case ">=":
			return Bin("<", a, b), true
		}
	}
	return c, false
}

// certainlyNonNil: terms that denote non-nil values by construction.
// hasDynType: a successful type assertion (or type switch case) on x is recorded.
func (f *Facts) hasDynType(x *Term) bool {
	if _, ok := f.dyn[x]; ok {
		return true
	}
	for k, v := range f.b {
		if v && k.K == KTAOk && k.A[0] == x {
			return true
		}
	}
	return false
}

func certainlyNonNil(t *Term) bool {
	switch t.K {
	case KBox, KWrap, KFresh, KAlloc, KMake, KClosure, KFunc, KFieldAddr, KIndexAddr, KGlobal, KStruct, KArray:
		return true
	case KPure:
		// reflect.TypeOf / Type() results used as interface values: TypeOf(nil) is nil, so not certain
		return false
	case KConst:
		return true
	case KSliceOf:
		// slicing an array address yields a non-nil slice
		return t.A[0].K == KAlloc
	}
	return false
}

// Bounds of an integer term under the facts.
func (e *Engine) bounds(f *Facts, t *Term) bound {
	base, c := AffParts(t)
	if base == nil {
		return bound{lo: c, hi: c, hasLo: true, hasHi: true}
	}
	if base.K == KAff && len(base.A) == 2 && base.A[1] != nil {
		// pos - neg: interval difference
		var bp bound
		if base.A[0] == nil {
			bp = bound{hasLo: true, hasHi: true}
		} else {
			bp = e.bounds(f, base.A[0])
		}
		bn := e.bounds(f, base.A[1])
		var r bound
		if bp.hasLo && bn.hasHi {
			r.lo, r.hasLo = bp.lo-bn.hi+c, true
		}
		if bp.hasHi && bn.hasLo {
			r.hi, r.hasHi = bp.hi-bn.lo+c, true
		}
		return r
	}
	if base.K == KBin && base.S == "*" {
		// multiplication by a positive constant scales the bounds
		x, y := base.A[0], base.A[1]
		if x.IsConstInt() {
			x, y = y, x
		}
		if y.IsConstInt() && y.I > 0 {
			bx := e.bounds(f, x)
			r := bound{}
			if bx.hasLo {
				r.lo, r.hasLo = bx.lo*y.I+c, true
			}
			if bx.hasHi {
				r.hi, r.hasHi = bx.hi*y.I+c, true
			}
			return r
		}
	}
	b := f.bnd[base]
	if base.K == KLen || base.K == KCap {
		if !b.hasLo || b.lo < 0 {
			b.lo, b.hasLo = 0, true
		}
	}
	if e != nil && e.Cfg.IntLowerBound != nil {
		if lo, ok := e.Cfg.IntLowerBound(base); ok && (!b.hasLo || b.lo < lo) {
			b.lo, b.hasLo = lo, true
		}
	}
	b.lo += c
	b.hi += c
	return b
}

// Eval decides a boolean term under the facts.
func (e *Engine) Eval(f *Facts, c *Term) Tri {
	if c.IsTrue() {
		return TriTrue
	}
	if c.IsFalse() {
		return TriFalse
	}
	atom, neg := canon(c)
	r := e.evalAtom(f, atom)
	if neg {
		return r.Not()
	}
	return r
}

func (e *Engine) evalAtom(f *Facts, a *Term) Tri {
	if a.IsTrue() {
		return TriTrue
	}
	if a.IsFalse() {
		return TriFalse
	}
	if v, ok := f.b[a]; ok {
		return triOf(v)
	}
	switch a.K {
	case KBin:
		x, y := a.A[0], a.A[1]
		switch a.S {
		case "==":
			if x == y {
				return TriTrue
			}
			if isConstLike(x) && isConstLike(y) {
				return TriFalse // distinct interned constants
			}
			if y.K == KNil && certainlyNonNil(x) {
				return TriFalse
			}
			if x.K == KNil && certainlyNonNil(y) {
				return TriFalse
			}
			// an interface value whose dynamic type is known holds something: it is not nil
			if y.K == KNil && f.hasDynType(x) {
				return TriFalse
			}
			if x.K == KNil && f.hasDynType(y) {
				return TriFalse
			}
			// integer reasoning
			if r := e.intCmpEq(f, x, y); r != TriUnknown {
				return r
			}
			// x == c1 known true for another constant c1 != y
			if isConstLike(y) {
				for k, v := range f.b {
					if v && k.K == KBin && k.S == "==" && k.A[0] == x && isConstLike(k.A[1]) && k.A[1] != y {
						return TriFalse
					}
				}
			}
		case "<":
			bx, by := e.bounds(f, x), e.bounds(f, y)
			xb, xc := AffParts(x)
			yb, yc := AffParts(y)
			if xb == yb {
				return triOf(xc < yc)
			}
			if bx.hasHi && by.hasLo && bx.hi < by.lo {
				return TriTrue
			}
			if bx.hasLo && by.hasHi && bx.lo >= by.hi {
				return TriFalse
			}
		}
	case KTAOk:
		return e.evalTAOk(f, a.A[0], a.T)
	}
	return TriUnknown
}

func (e *Engine) intCmpEq(f *Facts, x, y *Term) Tri {
	xb, xc := AffParts(x)
	yb, yc := AffParts(y)
	isInt := func(t *Term) bool { return t.IsConstInt() || t.K == KAff || t.K == KLen || t.K == KCap }
	if !isInt(x) && !isInt(y) {
		return TriUnknown
	}
	if xb == yb {
		return triOf(xc == yc)
	}
	bx, by := e.bounds(f, x), e.bounds(f, y)
	if bx.hasHi && by.hasLo && bx.hi < by.lo {
		return TriFalse
	}
	if bx.hasLo && by.hasHi && bx.lo > by.hi {
		return TriFalse
	}
	if bx.hasLo && bx.hasHi && by.hasLo && by.hasHi && bx.lo == bx.hi && by.lo == by.hi && bx.lo == by.lo {
		return TriTrue
	}
	return TriUnknown
}

// DynType returns the dynamic type of an interface-valued term if known.
func (f *Facts) DynType(x *Term) types.Type {
	switch x.K {
	case KBox:
		return x.T
	case KTA:
		if !types.IsInterface(x.T) {
			return x.T
		}
	}
	if t, ok := f.dyn[x]; ok {
		return t
	}
	return nil
}

func (e *Engine) evalTAOk(f *Facts, x *Term, t types.Type) Tri {
	if x.K == KNil {
		return TriFalse
	}
	if d := f.DynType(x); d != nil {
		if types.IsInterface(t) {
			return triOf(types.Implements(d, t.Underlying().(*types.Interface)))
		}
		return triOf(types.Identical(d, t))
	}
	return TriUnknown
}

// Assume records cond == val. It returns false if that contradicts the facts.
func (e *Engine) Assume(f *Facts, c *Term, val bool) bool {
	switch e.Eval(f, c) {
	case TriTrue:
		return val
	case TriFalse:
		return !val
	}
	atom, neg := canon(c)
	if neg {
		val = !val
	}
	f.b[atom] = val
	switch atom.K {
	case KTAOk:
		if val && !types.IsInterface(atom.T) {
			f.dyn[atom.A[0]] = atom.T
		}
	case KBin:
		x, y := atom.A[0], atom.A[1]
		switch atom.S {
		case "<":
			bx, by := e.bounds(f, x), e.bounds(f, y)
			if val { // x < y
				if by.hasHi {
					e.tighten(f, x, false, by.hi-1)
				}
				if bx.hasLo {
					e.tighten(f, y, true, bx.lo+1)
				}
			} else { // x >= y
				if by.hasLo {
					e.tighten(f, x, true, by.lo)
				}
				if bx.hasHi {
					e.tighten(f, y, false, bx.hi)
				}
			}
		case "==":
			if val {
				bx, by := e.bounds(f, x), e.bounds(f, y)
				if by.hasLo && by.hasHi && by.lo == by.hi && (y.IsConstInt()) {
					e.tighten(f, x, true, by.lo)
					e.tighten(f, x, false, by.hi)
				}
				_ = bx
			} else if y.IsConstInt() {
				// x != c: tighten when c is at a bound
				bx := e.bounds(f, x)
				if bx.hasLo && bx.lo == y.I {
					e.tighten(f, x, true, y.I+1)
				}
				if bx.hasHi && bx.hi == y.I {
					e.tighten(f, x, false, y.I-1)
				}
			}
		}
	}
	return true
}

// tighten sets a lower (isLo) or upper bound on the base symbol of t.
func (e *Engine) tighten(f *Facts, t *Term, isLo bool, v int64) {
	base, c := AffParts(t)
	if base == nil || (base.K == KAff && len(base.A) == 2 && base.A[1] != nil) {
		return
	}
	b := f.bnd[base]
	v -= c
	if isLo {
		if !b.hasLo || v > b.lo {
			b.lo, b.hasLo = v, true
		}
	} else {
		if !b.hasHi || v < b.hi {
			b.hi, b.hasHi = v, true
		}
	}
	f.bnd[base] = b
}
