package eng

import (
	"fmt"
	"go/token"
	"go/types"

	"golang.org/x/tools/go/ssa"
)

// run executes the state from its current position until the path ends,
// forks, or reaches a block entry (where it is re-scheduled).
func (e *Engine) run(st *State) {
	for {
		fr := st.top()
		if fr.pc >= len(fr.block.Instrs) {
			e.problem("fallthrough", "block without terminator in "+fr.fn.String(), token.Position{})
			return
		}
		ins := fr.block.Instrs[fr.pc]
		switch x := ins.(type) {
		case *ssa.If:
			cond := e.value(st, fr, x.Cond)
			t := e.Eval(st.facts, cond)
			succs := fr.block.Succs
			switch t {
			case TriTrue, TriFalse:
				taken := t == TriTrue
				idx := 0
				if !taken {
					idx = 1
				}
				// a comparison on an induction variable that the bounds already decide is recorded
				// all the same: at a bottom-tested loop the relation (iv+step < n) has to survive
				// the widening of iv on the back edge, where the bounds no longer imply it
				if atom, neg := canon(cond); atom.K == KBin && atom.S == "<" {
					for _, side := range atom.A {
						if b, _ := AffParts(side); b != nil && b.K == KSym && b.G == 0 {
							st.facts.b[atom] = taken != neg
						}
					}
				}
				ev := &Event{Kind: "branch", Instr: x, Fn: fr.fn, Depth: fr.depth, Pos: e.Pos(x), Cond: cond, Taken: taken, Decided: true, Succ: succs[idx]}
				if !e.deliver(st, ev) {
					return
				}
				e.enterBlock(st, fr.block, succs[idx])
				return
			default:
				e.Forks++
				for idx, taken := range []bool{true, false} {
					ns := st
					if idx == 0 {
						ns = st.clone()
					}
					if !e.Assume(ns.facts, cond, taken) {
						continue
					}
					nf := ns.top()
					ev := &Event{Kind: "branch", Instr: x, Fn: nf.fn, Depth: nf.depth, Pos: e.Pos(x), Cond: cond, Taken: taken, Succ: succs[idx]}
					ns.note(fmt.Sprintf("assume %s = %v", cond.Pretty(), taken), e.Pos(x))
					if !e.deliver(ns, ev) {
						continue
					}
					e.enterBlock(ns, nf.block, succs[idx])
				}
				return
			}
		case *ssa.Jump:
			e.enterBlock(st, fr.block, fr.block.Succs[0])
			return
		case *ssa.Return:
			vals := make([]*Term, len(x.Results))
			for i, r := range x.Results {
				vals[i] = e.value(st, fr, r)
			}
			if len(fr.defers) > 0 {
				// a return without rundefers cannot happen in go/ssa; be safe
				e.problem("defers", "return with pending defers in "+fr.fn.String(), e.Pos(x))
			}
			if len(st.frames) == 1 {
				ev := &Event{Kind: "return", Instr: x, Fn: fr.fn, Pos: e.Pos(x), Results: vals}
				st.note("return", e.Pos(x))
				e.deliver(st, ev)
				if e.Cfg.DropReturnStates {
					e.Returns = append(e.Returns, ReturnRec{Pos: e.Pos(x)})
				} else {
					e.Returns = append(e.Returns, ReturnRec{Vals: vals, State: st, Pos: e.Pos(x)})
				}
				return
			}
			if !e.popFrame(st, vals, x) {
				return
			}
			continue
		case *ssa.Panic:
			v := e.value(st, fr, x.X)
			ev := &Event{Kind: "panic", Instr: x, Fn: fr.fn, Depth: fr.depth, Pos: e.Pos(x), Val: v}
			st.note("panic", e.Pos(x))
			e.deliver(st, ev)
			e.Returns = append(e.Returns, ReturnRec{State: st, Pos: e.Pos(x), Panic: true})
			return
		case *ssa.RunDefers:
			if len(fr.defers) > 0 {
				d := fr.defers[len(fr.defers)-1]
				fr.defers = fr.defers[:len(fr.defers)-1]
				// execute deferred call; stay on this instruction until all ran
				cont, pushed := e.doCall(st, fr, d.call, nil, &d)
				if !cont {
					return
				}
				if pushed {
					continue
				}
				continue
			}
			fr.pc++
		case *ssa.Select:
			e.doSelect(st, fr, x)
			return
		default:
			if call, ok := ins.(ssa.CallInstruction); ok {
				switch c := ins.(type) {
				case *ssa.Defer:
					e.doDefer(st, fr, c)
					fr.pc++
					continue
				case *ssa.Go:
					e.doGo(st, fr, c)
					fr.pc++
					continue
				}
				var val ssa.Value
				if v, ok := ins.(*ssa.Call); ok {
					val = v
				}
				cont, pushed := e.doCall(st, fr, call, val, nil)
				if !cont {
					return
				}
				if !pushed {
					fr.pc++
				}
				continue
			}
			if !e.simple(st, fr, ins) {
				return
			}
			fr.pc++
		}
	}
}

// popFrame returns from an inlined frame, binding results in the caller.
func (e *Engine) popFrame(st *State, vals []*Term, at ssa.Instruction) bool {
	fr := st.top()
	st.frames = st.frames[:len(st.frames)-1]
	caller := st.top()
	kind := "exit"
	if fr.isTask {
		kind = "task-exit"
		st.inTask--
	}
	ev := &Event{Kind: kind, Callee: fr.fn, Fn: caller.fn, Depth: caller.depth, Instr: fr.call, Pos: e.Pos(at), Results: vals, Site: fr.ctx}
	if !e.deliver(st, ev) {
		return false
	}
	if fr.call != nil {
		if v, ok := fr.call.(*ssa.Call); ok && !fr.isTask {
			var r *Term
			switch len(vals) {
			case 0:
				r = Tuple()
			case 1:
				r = vals[0]
			default:
				r = Tuple(vals...)
			}
			caller.env[v] = r
		}
	}
	// a deferred call or a task does not advance the caller's pc here:
	// RunDefers stays on its instruction; a task was started by a call that already advanced.
	if _, isRD := caller.block.Instrs[caller.pc].(*ssa.RunDefers); isRD {
		return true
	}
	if fr.isTask {
		return true
	}
	caller.pc++
	return true
}

func (e *Engine) doDefer(st *State, fr *Frame, d *ssa.Defer) {
	c := d.Common()
	dd := deferred{call: d, site: e.site(fr, d)}
	if c.IsInvoke() {
		dd.fn = e.value(st, fr, c.Value)
	} else {
		dd.fn = e.value(st, fr, c.Value)
	}
	for _, a := range c.Args {
		dd.args = append(dd.args, e.value(st, fr, a))
	}
	fr.defers = append(fr.defers, dd)
	ev := &Event{Kind: "defer", Instr: d, Fn: fr.fn, Depth: fr.depth, Pos: e.Pos(d), Site: dd.site, Callee: c.StaticCallee(), FnTerm: dd.fn, Args: dd.args}
	if c.IsInvoke() {
		ev.Method = c.Method
		ev.Recv = dd.fn
	}
	e.deliver(st, ev)
}

func (e *Engine) doGo(st *State, fr *Frame, g *ssa.Go) {
	c := g.Common()
	ev := &Event{Kind: "go", Instr: g, Fn: fr.fn, Depth: fr.depth, Pos: e.Pos(g), Site: e.site(fr, g), Callee: c.StaticCallee()}
	ev.FnTerm = e.value(st, fr, c.Value)
	for _, a := range c.Args {
		ev.Args = append(ev.Args, e.value(st, fr, a))
	}
	if c.IsInvoke() {
		ev.Method = c.Method
	}
	st.note("go "+ev.FnTerm.Pretty(), ev.Pos)
	e.deliver(st, ev)
}

func (e *Engine) doSelect(st *State, fr *Frame, s *ssa.Select) {
	site := e.site(fr, s)
	var cases []SelectCase
	for _, cs := range s.States {
		sc := SelectCase{Send: cs.Dir == types.SendOnly, Chan: e.value(st, fr, cs.Chan)}
		if cs.Send != nil {
			sc.Val = e.value(st, fr, cs.Send)
		}
		cases = append(cases, sc)
	}
	n := len(cases)
	lo := 0
	if !s.Blocking {
		lo = -1
	}
	class := "blocking"
	if !s.Blocking {
		class = "nonblocking"
	}
	for i := lo; i < n; i++ {
		ns := st
		if i < n-1 {
			ns = st.clone()
		}
		ns.shiftSite(site)
		nf := ns.top()
		// result tuple: index, recvOk, then one value per receive case
		res := []*Term{ConstInt(int64(i)), Ev(site, 1, 0)}
		k := 2
		for _, cs := range s.States {
			if cs.Dir == types.RecvOnly {
				res = append(res, Ev(site, k, 0))
				k++
			}
		}
		nf.env[s] = Tuple(res...)
		ev := &Event{Kind: "select", Class: class, Instr: s, Fn: nf.fn, Depth: nf.depth, Pos: e.Pos(s), Site: site, Chosen: i, Cases: cases, Results: res}
		ns.note(fmt.Sprintf("select case %d", i), ev.Pos)
		if !e.deliver(ns, ev) {
			continue
		}
		nf.pc++
		e.Forks++
		e.runContinue(ns)
	}
}

// runContinue re-schedules a state in the middle of a block (after a fork
// inside a block). The state is keyed like a block entry.
func (e *Engine) runContinue(st *State) {
	st.gc()
	k := st.key()
	if !e.markVisited(k) {
		return
	}
	e.States++
	e.work = append(e.work, st)
}

// simple executes a non-control, non-call instruction.
func (e *Engine) simple(st *State, fr *Frame, ins ssa.Instruction) bool {
	switch x := ins.(type) {
	case *ssa.DebugRef:
	case *ssa.Alloc:
		site := e.site(fr, x)
		st.shiftSite(site)
		e.allocOf[site] = x
		e.siteType[site] = x.Type().(*types.Pointer).Elem()
		a := Alloc(site, 0)
		fr.env[x] = a
	case *ssa.Store:
		addr := e.value(st, fr, x.Addr)
		val := e.value(st, fr, x.Val)
		nonLocal, vol := e.store(st, addr, val)
		if nonLocal || vol {
			ev := &Event{Kind: "store", Instr: x, Fn: fr.fn, Depth: fr.depth, Pos: e.Pos(x), Addr: addr, Val: val, Volatile: vol, Site: e.site(fr, x)}
			if !e.deliver(st, ev) {
				return false
			}
		}
	case *ssa.UnOp:
		v := e.value(st, fr, x.X)
		switch x.Op {
		case token.MUL:
			fr.env[x] = e.load(st, v, e.site(fr, x))
			root := addrRoot(v)
			if e.Cfg.LoadEvents && root != nil && root.K != KAlloc {
				ev := &Event{Kind: "load", Instr: x, Fn: fr.fn, Depth: fr.depth, Pos: e.Pos(x), Addr: v, Results: []*Term{fr.env[x]}, Site: e.site(fr, x)}
				if !e.deliver(st, ev) {
					return false
				}
			}
			if vr, vp, _ := addrPath(v); root != nil && root.K == KAlloc && vr == root && e.isVolatile(root, vp) {
				ev := &Event{Kind: "load", Instr: x, Fn: fr.fn, Depth: fr.depth, Pos: e.Pos(x), Addr: v, Volatile: true, Results: []*Term{fr.env[x]}, Site: e.site(fr, x)}
				if !e.deliver(st, ev) {
					return false
				}
			}
		case token.NOT:
			fr.env[x] = Not(v)
		case token.SUB:
			if b, c := AffParts(v); b == nil {
				fr.env[x] = ConstInt(-c)
			} else {
				fr.env[x] = Neg(v)
			}
		case token.ARROW:
			site := e.site(fr, x)
			st.shiftSite(site)
			var res []*Term
			if x.CommaOk {
				res = []*Term{Ev(site, 0, 0), Ev(site, 1, 0)}
				fr.env[x] = Tuple(res...)
			} else {
				res = []*Term{Ev(site, 0, 0)}
				fr.env[x] = res[0]
			}
			ev := &Event{Kind: "recv", Instr: x, Fn: fr.fn, Depth: fr.depth, Pos: e.Pos(x), Addr: v, Results: res, Site: site}
			if !e.deliver(st, ev) {
				return false
			}
		default:
			fr.env[x] = Bin("unop"+x.Op.String(), v, Nil())
		}
	case *ssa.BinOp:
		a, b := e.value(st, fr, x.X), e.value(st, fr, x.Y)
		fr.env[x] = e.binop(x.Op, a, b, x.X.Type())
	case *ssa.Phi:
		// evaluated at block entry
	case *ssa.Extract:
		t := e.value(st, fr, x.Tuple)
		if t.K == KTuple && x.Index < len(t.A) {
			fr.env[x] = t.A[x.Index]
		} else {
			fr.env[x] = Field(t, x.Index)
		}
	case *ssa.TypeAssert:
		v := e.value(st, fr, x.X)
		var val *Term
		if types.IsInterface(x.AssertedType) {
			val = v // same dynamic value, different static interface type
		} else {
			if v.K == KBox && types.Identical(v.T, x.AssertedType) {
				val = v.A[0]
			} else {
				val = TA(v, x.AssertedType)
			}
		}
		ok := TAOk(v, x.AssertedType)
		if x.CommaOk {
			fr.env[x] = Tuple(val, ok)
		} else {
			r := e.Eval(st.facts, ok)
			ev := &Event{Kind: "typeassert", Instr: x, Fn: fr.fn, Depth: fr.depth, Pos: e.Pos(x), Val: v, Cond: ok, Decided: r != TriUnknown, Taken: r == TriTrue, Site: e.site(fr, x)}
			if !e.deliver(st, ev) {
				return false
			}
			if r == TriFalse {
				st.note("type assertion always fails (panic)", e.Pos(x))
				e.Returns = append(e.Returns, ReturnRec{State: st, Pos: e.Pos(x), Panic: true})
				return false
			}
			e.Assume(st.facts, ok, true)
			fr.env[x] = val
		}
	case *ssa.MakeInterface:
		v := e.value(st, fr, x.X)
		fr.env[x] = Box(x.X.Type(), v)
		// an in-package error type with `Unwrap() error { return e.<field> }`: the boxed value
		// wraps what that field holds at this moment (errors.Is / errors.As see through it)
		if idx, byPtr, ok := e.unwrapField(x.X.Type()); ok {
			var inner *Term
			if byPtr {
				inner = e.load(st, FieldAddr(v, idx), e.site(fr, x))
			} else if sv := expandZero(v); sv.K == KStruct && idx < len(sv.A) {
				inner = sv.A[idx]
			}
			if inner != nil && inner.K != KUnknown {
				fr.env[x] = BoxWrapping(x.X.Type(), v, inner)
			}
		}
	case *ssa.ChangeInterface:
		fr.env[x] = e.value(st, fr, x.X)
	case *ssa.ChangeType:
		fr.env[x] = e.value(st, fr, x.X)
	case *ssa.Convert:
		v := e.value(st, fr, x.X)
		from, to := x.X.Type().Underlying(), x.Type().Underlying()
		fb, fok := from.(*types.Basic)
		tb, tok := to.(*types.Basic)
		if fok && tok && fb.Kind() == tb.Kind() {
			fr.env[x] = v // same representation (named vs underlying type)
		} else if fok && tok && fb.Info()&types.IsString != 0 && tb.Info()&types.IsString != 0 {
			fr.env[x] = v
		} else if v.IsConstInt() && tok && tb.Info()&types.IsInteger != 0 {
			fr.env[x] = v
		} else {
			fr.env[x] = Conv(x.Type(), v)
		}
	case *ssa.MakeClosure:
		fn := x.Fn.(*ssa.Function)
		b := make([]*Term, len(x.Bindings))
		for i, bv := range x.Bindings {
			b[i] = e.value(st, fr, bv)
		}
		fr.env[x] = Closure(fn.String(), fn, b)
	case *ssa.MakeSlice:
		site := e.site(fr, x)
		st.shiftSite(site)
		fr.env[x] = Make(site, 0, x.Type(), e.value(st, fr, x.Len), e.value(st, fr, x.Cap))
	case *ssa.MakeMap:
		site := e.site(fr, x)
		st.shiftSite(site)
		fr.env[x] = Make(site, 0, x.Type())
	case *ssa.MakeChan:
		site := e.site(fr, x)
		st.shiftSite(site)
		fr.env[x] = Make(site, 0, x.Type(), e.value(st, fr, x.Size))
		ev := &Event{Kind: "make", Class: "chan", Instr: x, Fn: fr.fn, Depth: fr.depth, Pos: e.Pos(x), Site: site, Val: e.value(st, fr, x.Size), Results: []*Term{fr.env[x]}}
		if !e.deliver(st, ev) {
			return false
		}
	case *ssa.FieldAddr:
		fr.env[x] = FieldAddr(e.value(st, fr, x.X), x.Field)
	case *ssa.Field:
		v := expandZero(e.value(st, fr, x.X))
		if v.K == KStruct && x.Field < len(v.A) {
			fr.env[x] = v.A[x.Field]
		} else {
			fr.env[x] = Field(v, x.Field)
		}
	case *ssa.IndexAddr:
		base, idx := e.value(st, fr, x.X), e.exactIndex(st, e.value(st, fr, x.Index))
		fr.env[x] = IndexAddr(base, idx)
		if e.Cfg.IndexEvents {
			if _, isSlice := x.X.Type().Underlying().(*types.Slice); isSlice {
				inb := e.Eval(st.facts, Bin("<", idx, e.LenTerm(st, base))) == TriTrue && e.Eval(st.facts, Bin("<", idx, ConstInt(0))) == TriFalse
				ev := &Event{Kind: "index", Instr: x, Fn: fr.fn, Depth: fr.depth, Pos: e.Pos(x), Addr: base, Key: idx, Decided: inb, Site: e.site(fr, x)}
				if !e.deliver(st, ev) {
					return false
				}
			}
		}
	case *ssa.Index:
		v := expandZero(e.value(st, fr, x.X))
		i := e.exactIndex(st, e.value(st, fr, x.Index))
		if v.K == KArray && i.IsConstInt() && int(i.I) < len(v.A) {
			fr.env[x] = v.A[i.I]
		} else {
			fr.env[x] = Lookup(v, i)
		}
	case *ssa.Lookup:
		m := e.value(st, fr, x.X)
		k := e.value(st, fr, x.Index)
		val, ok := e.mapLookup(st, m, k, e.site(fr, x))
		if x.CommaOk {
			fr.env[x] = Tuple(val, ok)
		} else {
			fr.env[x] = val
		}
		ev := &Event{Kind: "lookup", Instr: x, Fn: fr.fn, Depth: fr.depth, Pos: e.Pos(x), Addr: m, Key: k, Results: []*Term{val, ok}, Site: e.site(fr, x)}
		if !e.deliver(st, ev) {
			return false
		}
	case *ssa.MapUpdate:
		m := e.value(st, fr, x.Map)
		k := e.value(st, fr, x.Key)
		v := e.value(st, fr, x.Value)
		e.mapUpdate(st, m, k, v)
		ev := &Event{Kind: "mapupdate", Instr: x, Fn: fr.fn, Depth: fr.depth, Pos: e.Pos(x), Addr: m, Key: k, Val: v, Site: e.site(fr, x)}
		if !e.deliver(st, ev) {
			return false
		}
	case *ssa.Slice:
		v := e.value(st, fr, x.X)
		var lo, hi *Term
		if x.Low != nil {
			lo = e.value(st, fr, x.Low)
			if lo.IsConstInt() && lo.I == 0 {
				lo = nil
			}
		}
		if x.High != nil {
			hi = e.value(st, fr, x.High)
		}
		if lo == nil && hi == nil {
			if _, isPtr := x.X.Type().Underlying().(*types.Pointer); !isPtr {
				fr.env[x] = v // s[:] of a slice is the slice
				break
			}
		}
		fr.env[x] = SliceOf(v, lo, hi)
	case *ssa.Range:
		site := e.site(fr, x)
		st.shiftSite(site)
		fr.env[x] = Range(site, e.value(st, fr, x.X))
		ev := &Event{Kind: "range", Instr: x, Fn: fr.fn, Depth: fr.depth, Pos: e.Pos(x), Addr: e.value(st, fr, x.X), Site: site, Results: []*Term{fr.env[x]}}
		if !e.deliver(st, ev) {
			return false
		}
	case *ssa.Next:
		it := e.value(st, fr, x.Iter)
		site := e.site(fr, x)
		st.shiftSite(site)
		res := []*Term{Ev(site, 0, 0), Ev(site, 1, 0), Ev(site, 2, 0)}
		fr.env[x] = Tuple(res...)
		ev := &Event{Kind: "next", Instr: x, Fn: fr.fn, Depth: fr.depth, Pos: e.Pos(x), Addr: it, Results: res, Site: site}
		if !e.deliver(st, ev) {
			return false
		}
	case *ssa.Send:
		ch := e.value(st, fr, x.Chan)
		v := e.value(st, fr, x.X)
		ev := &Event{Kind: "send", Instr: x, Fn: fr.fn, Depth: fr.depth, Pos: e.Pos(x), Addr: ch, Val: v, Site: e.site(fr, x)}
		if !e.deliver(st, ev) {
			return false
		}
	case *ssa.MultiConvert:
		fr.env[x] = Conv(x.Type(), e.value(st, fr, x.X))
	case *ssa.SliceToArrayPointer:
		fr.env[x] = Conv(x.Type(), e.value(st, fr, x.X))
	default:
		e.problem("instr", fmt.Sprintf("unsupported instruction %T in %s", ins, fr.fn), e.Pos(ins))
		if v, ok := ins.(ssa.Value); ok {
			fr.env[v] = Unknown(e.site(fr, ins))
		}
	}
	return true
}

func (e *Engine) binop(op token.Token, a, b *Term, opType types.Type) *Term {
	switch op {
	case token.ADD:
		if isIntType(opType) {
			if _, c := AffParts(b); b.IsConstInt() {
				return Aff(a, c)
			}
			if _, c := AffParts(a); a.IsConstInt() {
				return Aff(b, c)
			}
		}
	case token.SUB:
		if isIntType(opType) {
			if b.IsConstInt() {
				return Aff(a, -b.I)
			}
			// (pa - na + ca) - (pb - nb + cb) = (pa + nb) - (na + pb) + (ca - cb), cancelling equal symbols
			pa, na, ca := Aff2Parts(a)
			pb, nb, cb := Aff2Parts(b)
			pos := []*Term{}
			neg := []*Term{}
			for _, t := range []*Term{pa, nb} {
				if t != nil {
					pos = append(pos, t)
				}
			}
			for _, t := range []*Term{na, pb} {
				if t != nil {
					neg = append(neg, t)
				}
			}
			for i := 0; i < len(pos); i++ {
				for j := 0; j < len(neg); j++ {
					if pos[i] == neg[j] {
						pos = append(pos[:i], pos[i+1:]...)
						neg = append(neg[:j], neg[j+1:]...)
						i--
						break
					}
				}
			}
			if len(pos) <= 1 && len(neg) <= 1 {
				var p, n *Term
				if len(pos) == 1 {
					p = pos[0]
				}
				if len(neg) == 1 {
					n = neg[0]
				}
				if p == nil && n == nil {
					return ConstInt(ca - cb)
				}
				if p != nil || n != nil {
					return Aff2(p, n, ca-cb)
				}
			}
		}
	case token.MUL:
		if isIntType(opType) && a.IsConstInt() && b.IsConstInt() {
			return ConstInt(a.I * b.I)
		}
		if isIntType(opType) {
			// x * 1 (a Duration times time.Nanosecond, a count times a unit factor)
			if b.IsConstInt() && b.I == 1 {
				return a
			}
			if a.IsConstInt() && a.I == 1 {
				return b
			}
		}
	case token.EQL:
		return Bin("==", a, b)
	case token.NEQ:
		return Bin("!=", a, b)
	case token.LSS:
		return Bin("<", a, b)
	case token.GTR:
		return Bin(">", a, b)
	case token.LEQ:
		return Bin("<=", a, b)
	case token.GEQ:
		return Bin(">=", a, b)
	}
	return Bin(op.String(), a, b)
}

// exactIndex replaces an index term whose value is pinned to one integer by
// the facts (e.g. the induction variable in the first iteration) by that
// constant, but only when it indexes local arrays; symbolic slices keep the
// symbolic index so that per-iteration slot rules stay uniform.
func (e *Engine) exactIndex(st *State, idx *Term) *Term {
	return idx
}

// concreteIndex returns the constant value of idx if the facts pin it.
func (e *Engine) concreteIndex(st *State, idx *Term) (*Term, bool) {
	if idx.IsConstInt() {
		return idx, true
	}
	b := e.bounds(st.facts, idx)
	if b.hasLo && b.hasHi && b.lo == b.hi {
		return ConstInt(b.lo), true
	}
	return idx, false
}

func distinctKeys(a, b *Term) bool {
	return a != b && isConstLike(a) && isConstLike(b)
}

func (e *Engine) mapLookup(st *State, m, k *Term, site string) (val, ok *Term) {
	lk, lok := Lookup(m, k), LookupOk(m, k)
	if v, hit := st.mem[lk]; hit {
		o := st.mem[lok]
		if o == nil {
			o = lok
		}
		return v, o
	}
	for _, dk := range st.dirty[m] {
		if !distinctKeys(dk, k) {
			return Unknown("maybe-updated|" + site), Unknown("maybe-updated-ok|" + site)
		}
	}
	return lk, lok
}

func (e *Engine) mapUpdate(st *State, m, k, v *Term) {
	// forget other entries of the same map that may alias
	for mk := range st.mem {
		if (mk.K == KLookup || mk.K == KLookupOk) && mk.A[0] == m && mk.A[1] != k && !distinctKeys(mk.A[1], k) {
			delete(st.mem, mk)
		}
	}
	st.mem[Lookup(m, k)] = v
	st.mem[LookupOk(m, k)] = ConstBool(true)
	e.noteDirty(st, m, k)
}

// noteDirty remembers that key k of map m was written; beyond a few distinct
// keys the map's content is treated as wholly unknown (keeps states finite).
func (e *Engine) noteDirty(st *State, m, k *Term) {
	for _, dk := range st.dirty[m] {
		if dk == k || dk.K == KUnknown {
			return
		}
	}
	if len(st.dirty[m]) >= 3 {
		st.dirty[m] = []*Term{Unknown("manykeys")}
		for mk := range st.mem {
			if (mk.K == KLookup || mk.K == KLookupOk) && mk.A[0] == m {
				delete(st.mem, mk)
			}
		}
		return
	}
	st.dirty[m] = append(st.dirty[m], k)
}

func (e *Engine) mapDelete(st *State, m, k *Term) {
	for mk := range st.mem {
		if (mk.K == KLookup || mk.K == KLookupOk) && mk.A[0] == m && mk.A[1] != k && !distinctKeys(mk.A[1], k) {
			delete(st.mem, mk)
		}
	}
	st.mem[Lookup(m, k)] = Unknown("deleted")
	st.mem[LookupOk(m, k)] = ConstBool(false)
	e.noteDirty(st, m, k)
}
