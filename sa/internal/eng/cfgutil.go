package eng

import (
	"go/token"
	"go/types"
	"sort"

	"golang.org/x/tools/go/ssa"
)

// Loop is a natural loop of a function.
type Loop struct {
	Header *ssa.BasicBlock
	Blocks map[*ssa.BasicBlock]bool
	Latch  []*ssa.BasicBlock // sources of back edges
}

// FuncInfo caches per-function CFG facts: natural loops and liveness.
type FuncInfo struct {
	Fn      *ssa.Function
	Loops   []*Loop
	loopOf  map[*ssa.BasicBlock]*Loop // innermost loop containing the block
	liveIn  map[*ssa.BasicBlock]map[ssa.Value]bool
	liveOut map[*ssa.BasicBlock]map[ssa.Value]bool
}

func (e *Engine) info(fn *ssa.Function) *FuncInfo {
	if fi, ok := e.finfo[fn]; ok {
		return fi
	}
	fi := &FuncInfo{Fn: fn, loopOf: map[*ssa.BasicBlock]*Loop{}}
	fi.computeLoops()
	fi.computeLiveness()
	e.finfo[fn] = fi
	return fi
}

// InfoOf exposes the cached function info.
func (e *Engine) InfoOf(fn *ssa.Function) *FuncInfo { return e.info(fn) }

func (fi *FuncInfo) computeLoops() {
	fn := fi.Fn
	byHeader := map[*ssa.BasicBlock]*Loop{}
	for _, b := range fn.Blocks {
		for _, s := range b.Succs {
			if s.Dominates(b) { // back edge b -> s
				l := byHeader[s]
				if l == nil {
					l = &Loop{Header: s, Blocks: map[*ssa.BasicBlock]bool{s: true}}
					byHeader[s] = l
					fi.Loops = append(fi.Loops, l)
				}
				l.Latch = append(l.Latch, b)
				// collect body
				stack := []*ssa.BasicBlock{b}
				for len(stack) > 0 {
					n := stack[len(stack)-1]
					stack = stack[:len(stack)-1]
					if l.Blocks[n] {
						continue
					}
					l.Blocks[n] = true
					stack = append(stack, n.Preds...)
				}
			}
		}
	}
	sort.Slice(fi.Loops, func(i, j int) bool { return fi.Loops[i].Header.Index < fi.Loops[j].Header.Index })
	// innermost: the smallest loop containing the block
	for _, b := range fn.Blocks {
		var best *Loop
		for _, l := range fi.Loops {
			if l.Blocks[b] && (best == nil || len(l.Blocks) < len(best.Blocks)) {
				best = l
			}
		}
		if best != nil {
			fi.loopOf[b] = best
		}
	}
}

// LoopOf returns the innermost loop containing b (nil if none).
func (fi *FuncInfo) LoopOf(b *ssa.BasicBlock) *Loop { return fi.loopOf[b] }

// LoopsContaining returns every loop containing b, innermost first.
func (fi *FuncInfo) LoopsContaining(b *ssa.BasicBlock) []*Loop {
	var out []*Loop
	for _, l := range fi.Loops {
		if l.Blocks[b] {
			out = append(out, l)
		}
	}
	sort.Slice(out, func(i, j int) bool { return len(out[i].Blocks) < len(out[j].Blocks) })
	return out
}

func isTracked(v ssa.Value) bool {
	switch v.(type) {
	case *ssa.Const, *ssa.Function, *ssa.Global, *ssa.Builtin:
		return false
	}
	return v != nil
}

func (fi *FuncInfo) computeLiveness() {
	fn := fi.Fn
	fi.liveIn = map[*ssa.BasicBlock]map[ssa.Value]bool{}
	fi.liveOut = map[*ssa.BasicBlock]map[ssa.Value]bool{}
	for _, b := range fn.Blocks {
		fi.liveIn[b] = map[ssa.Value]bool{}
		fi.liveOut[b] = map[ssa.Value]bool{}
	}
	changed := true
	var ops []*ssa.Value
	for changed {
		changed = false
		for i := len(fn.Blocks) - 1; i >= 0; i-- {
			b := fn.Blocks[i]
			out := fi.liveOut[b]
			for _, s := range b.Succs {
				for v := range fi.liveIn[s] {
					if !out[v] {
						out[v] = true
						changed = true
					}
				}
				// phi operands of s coming from b are live-out of b
				for _, ins := range s.Instrs {
					phi, ok := ins.(*ssa.Phi)
					if !ok {
						break
					}
					for pi, p := range s.Preds {
						if p == b {
							if v := phi.Edges[pi]; isTracked(v) && !out[v] {
								out[v] = true
								changed = true
							}
						}
					}
				}
			}
			// live-in (after phis) = (out - defs) + uses, scanning backwards, phis excluded
			live := map[ssa.Value]bool{}
			for v := range out {
				live[v] = true
			}
			for j := len(b.Instrs) - 1; j >= 0; j-- {
				ins := b.Instrs[j]
				if _, ok := ins.(*ssa.Phi); ok {
					// phi results stay live if used; operands handled on edges
					continue
				}
				if v, ok := ins.(ssa.Value); ok {
					delete(live, v)
				}
				ops = ins.Operands(ops[:0])
				for _, op := range ops {
					if *op != nil && isTracked(*op) {
						live[*op] = true
					}
				}
			}
			in := fi.liveIn[b]
			for v := range live {
				if !in[v] {
					in[v] = true
					changed = true
				}
			}
		}
	}
}

// liveBefore returns the values live just before instruction idx of block b.
func (fi *FuncInfo) liveBefore(b *ssa.BasicBlock, idx int) map[ssa.Value]bool {
	live := map[ssa.Value]bool{}
	for v := range fi.liveOut[b] {
		live[v] = true
	}
	var ops []*ssa.Value
	for j := len(b.Instrs) - 1; j >= idx; j-- {
		ins := b.Instrs[j]
		if _, ok := ins.(*ssa.Phi); ok {
			continue
		}
		if v, ok := ins.(ssa.Value); ok {
			delete(live, v)
		}
		ops = ins.Operands(ops[:0])
		for _, op := range ops {
			if *op != nil && isTracked(*op) {
				live[*op] = true
			}
		}
	}
	return live
}

// IVExit reports whether the If instruction tests an induction variable of a
// loop it belongs to (a header phi, directly or through +/- constants) and has
// a successor outside that loop. It returns that loop and the index (0/1) of
// the successor leaving it.
func (fi *FuncInfo) IVExit(ifi *ssa.If) (*Loop, int, bool) {
	b := ifi.Block()
	for _, l := range fi.LoopsContaining(b) {
		exit := -1
		for i, s := range b.Succs {
			if !l.Blocks[s] {
				exit = i
			}
		}
		if exit < 0 {
			continue
		}
		if condUsesHeaderPhi(ifi.Cond, l, 0) {
			return l, exit, true
		}
	}
	return nil, 0, false
}

func condUsesHeaderPhi(v ssa.Value, l *Loop, depth int) bool {
	if depth > 6 {
		return false
	}
	switch x := v.(type) {
	case *ssa.Phi:
		if x.Block() == l.Header && isIntType(x.Type()) {
			return true
		}
	case *ssa.BinOp:
		return condUsesHeaderPhi(x.X, l, depth+1) || condUsesHeaderPhi(x.Y, l, depth+1)
	case *ssa.UnOp:
		if x.Op == token.NOT || x.Op == token.SUB {
			return condUsesHeaderPhi(x.X, l, depth+1)
		}
	case *ssa.Convert:
		return condUsesHeaderPhi(x.X, l, depth+1)
	}
	return false
}

func isIntType(t types.Type) bool {
	b, ok := t.Underlying().(*types.Basic)
	return ok && b.Info()&types.IsInteger != 0
}
