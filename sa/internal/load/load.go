// Package load type-checks the flyt package from /repo's current working tree
// (optionally with an overlay) and builds its SSA form.
package load

import (
	"fmt"
	"go/ast"
	"go/token"
	"go/types"
	"os"
	"path/filepath"
	"sort"
	"strings"

	"golang.org/x/tools/go/packages"
	"golang.org/x/tools/go/ssa"
	"golang.org/x/tools/go/ssa/ssautil"
)

// PkgPath is the import path of the analysed package.
const PkgPath = "github.com/mark3labs/flyt"

// Options of a load.
type Options struct {
	Dir     string            // repository root (default /repo)
	Overlay map[string][]byte // absolute file name -> content
	Tags    []string
	GOOS    string
	GOARCH  string
}

// Program is the loaded package.
type Program struct {
	Dir   string
	Fset  *token.FileSet
	Pkg   *packages.Package
	Types *types.Package
	Info  *types.Info
	Files []*ast.File
	Prog  *ssa.Program
	SSA   *ssa.Package
	Names []string // file base names compiled
}

// Load loads and builds. Any type error is fatal.
func Load(o Options) (*Program, error) {
	if o.Dir == "" {
		o.Dir = "/repo"
	}
	env := append(os.Environ(), "GOFLAGS=-mod=mod", "GOPROXY=off", "GOSUMDB=off", "GOWORK=off", "GOTOOLCHAIN=local", "CGO_ENABLED=0")
	if o.GOOS != "" {
		env = append(env, "GOOS="+o.GOOS)
	}
	if o.GOARCH != "" {
		env = append(env, "GOARCH="+o.GOARCH)
	}
	// models of a few standard iterator constructors are compiled into the analysed package
	// (an extra file that exists only in this overlay), so that the engine can inline them
	ov := map[string][]byte{}
	for k, v := range o.Overlay {
		ov[k] = v
	}
	ov[filepath.Join(o.Dir, ModelsFile)] = []byte(modelsSource)
	cfg := &packages.Config{
		Mode:    packages.LoadSyntax,
		Dir:     o.Dir,
		Env:     env,
		Tests:   false,
		Overlay: ov,
	}
	if len(o.Tags) > 0 {
		cfg.BuildFlags = []string{"-tags=" + strings.Join(o.Tags, ",")}
	}
	pkgs, err := packages.Load(cfg, ".")
	if err != nil {
		return nil, fmt.Errorf("load: %w", err)
	}
	if len(pkgs) != 1 {
		return nil, fmt.Errorf("load: expected exactly one root package, got %d", len(pkgs))
	}
	p := pkgs[0]
	if len(p.Errors) > 0 {
		var msgs []string
		for _, e := range p.Errors {
			msgs = append(msgs, e.Error())
		}
		return nil, fmt.Errorf("load: package has errors: %s", strings.Join(msgs, "; "))
	}
	if p.PkgPath != PkgPath {
		return nil, fmt.Errorf("load: unexpected package path %q", p.PkgPath)
	}
	if len(p.Syntax) == 0 || p.Types == nil || p.TypesInfo == nil {
		return nil, fmt.Errorf("load: no syntax/types for %s", p.PkgPath)
	}
	prog, ssapkgs := ssautil.Packages(pkgs, ssa.InstantiateGenerics)
	if ssapkgs[0] == nil {
		return nil, fmt.Errorf("load: SSA package not built")
	}
	prog.Build()
	out := &Program{Dir: o.Dir, Fset: p.Fset, Pkg: p, Types: p.Types, Info: p.TypesInfo, Files: p.Syntax, Prog: prog, SSA: ssapkgs[0]}
	for _, f := range p.CompiledGoFiles {
		if filepath.Base(f) == ModelsFile {
			continue
		}
		out.Names = append(out.Names, filepath.Base(f))
	}
	sort.Strings(out.Names)
	return out, nil
}

// ModelsFile is the name of the synthetic file with the iterator models; ModelPrefix the
// prefix of the functions it declares.
const (
	ModelsFile  = "zz_flytsa_models.go"
	ModelPrefix = "flytsaModel"
)

// modelsSource: what slices.All / slices.Values / maps.All / maps.Insert / (*sync.Once).Do do, written over
// `any` (the engine is untyped where it matters). They are only ever entered through the
// engine's redirection of calls to the library functions of the same name.
const modelsSource = `package flyt

func flytsaModelSlicesAll(s []any) func(yield func(int, any) bool) {
	return func(yield func(int, any) bool) {
		for i, v := range s {
			if !yield(i, v) {
				return
			}
		}
	}
}

func flytsaModelSlicesValues(s []any) func(yield func(any) bool) {
	return func(yield func(any) bool) {
		for _, v := range s {
			if !yield(v) {
				return
			}
		}
	}
}

func flytsaModelMapsAll(m map[string]any) func(yield func(string, any) bool) {
	return func(yield func(string, any) bool) {
		for k, v := range m {
			if !yield(k, v) {
				return
			}
		}
	}
}

// (time.Duration).Nanoseconds: the duration itself as an integer.
func flytsaModelIdentity(x int64) int64 {
	return x
}

// (*sync.Once).Do as seen by a single analysed call: the function runs, in place.
func flytsaModelOnceDo(o any, f func()) {
	f()
}

func flytsaModelMapsInsert(m map[string]any, seq func(yield func(string, any) bool)) {
	seq(func(k string, v any) bool {
		m[k] = v
		return true
	})
}
`

// Func returns the package-level function with the given name.
func (p *Program) Func(name string) *ssa.Function {
	return p.SSA.Func(name)
}

// Method returns the method of the named type (pointer receiver tried first).
func (p *Program) Method(typeName, method string) *ssa.Function {
	obj := p.Types.Scope().Lookup(typeName)
	if obj == nil {
		return nil
	}
	tn, ok := obj.(*types.TypeName)
	if !ok {
		return nil
	}
	var fallback *ssa.Function
	for _, t := range []types.Type{tn.Type(), types.NewPointer(tn.Type())} {
		ms := p.Prog.MethodSets.MethodSet(t)
		if sel := ms.Lookup(p.Types, method); sel != nil {
			f := p.Prog.MethodValue(sel)
			if f != nil && f.Synthetic == "" {
				return f // the declared method, not a pointer-receiver wrapper
			}
			if fallback == nil {
				fallback = f
			}
		}
	}
	return fallback
}

// DeclaredMethod returns the method only when it is declared directly on the
// named type (not promoted).
func (p *Program) DeclaredMethod(typeName, method string) *ssa.Function {
	f := p.Method(typeName, method)
	if f == nil || f.Synthetic != "" {
		return nil
	}
	return f
}

// Named returns the named type.
func (p *Program) Named(name string) *types.Named {
	obj := p.Types.Scope().Lookup(name)
	if obj == nil {
		return nil
	}
	n, _ := obj.Type().(*types.Named)
	return n
}

// Iface returns the interface type with the given name.
func (p *Program) Iface(name string) *types.Interface {
	n := p.Named(name)
	if n == nil {
		return nil
	}
	i, _ := n.Underlying().(*types.Interface)
	return i
}

// AllFunctions lists every source function of the package (methods, closures).
func (p *Program) AllFunctions() []*ssa.Function {
	var out []*ssa.Function
	seen := map[*ssa.Function]bool{}
	var add func(f *ssa.Function)
	add = func(f *ssa.Function) {
		if f == nil || seen[f] {
			return
		}
		seen[f] = true
		out = append(out, f)
		for _, a := range f.AnonFuncs {
			add(a)
		}
	}
	for _, m := range p.SSA.Members {
		switch x := m.(type) {
		case *ssa.Function:
			if x.Synthetic == "" || strings.HasPrefix(x.Synthetic, "instance") {
				add(x)
			}
		case *ssa.Type:
			for _, t := range []types.Type{x.Type(), types.NewPointer(x.Type())} {
				ms := p.Prog.MethodSets.MethodSet(t)
				for i := 0; i < ms.Len(); i++ {
					f := p.Prog.MethodValue(ms.At(i))
					if f != nil && f.Pkg == p.SSA && f.Synthetic == "" {
						add(f)
					}
				}
			}
		}
	}
	sort.Slice(out, func(i, j int) bool { return out[i].Pos() < out[j].Pos() })
	return out
}

// Position of a token.Pos.
func (p *Program) Position(pos token.Pos) token.Position { return p.Fset.Position(pos) }
