package rules

import (
	"fmt"
	"go/types"
	"sort"
	"strings"

	"flytsa/internal/eng"
	"flytsa/internal/load"

	"golang.org/x/tools/go/ssa"
)

// storeFields finds the mutex and the map of SharedStore by type, as paths of field indexes:
// directly in the struct, or inside unexported struct fields held by value (a small state or
// table struct the store embeds).
func storeFields(r *Roles) (mu, data []int, ok bool) {
	if r.SharedStore == nil {
		return
	}
	var walk func(t types.Type, path []int, depth int)
	walk = func(t types.Type, path []int, depth int) {
		st, isStruct := t.Underlying().(*types.Struct)
		if !isStruct || depth > 2 {
			return
		}
		for i := 0; i < st.NumFields(); i++ {
			ft := st.Field(i).Type()
			p := append(append([]int(nil), path...), i)
			switch {
			case isNamed(ft, "sync", "RWMutex") || isNamed(ft, "sync", "Mutex"):
				if mu == nil {
					mu = p
				}
			default:
				if _, isMap := ft.Underlying().(*types.Map); isMap {
					if data == nil {
						data = p
					}
				} else if n, isNamedT := ft.(*types.Named); isNamedT && n.Obj().Pkg() == r.SharedStore.Obj().Pkg() {
					walk(ft, p, depth+1)
				}
			}
		}
	}
	walk(r.SharedStore, nil, 0)
	return mu, data, mu != nil && data != nil
}

// fieldPathAddr builds the address of the field at path inside the object base points to.
func fieldPathAddr(base *eng.Term, path []int) *eng.Term {
	for _, i := range path {
		base = eng.FieldAddr(base, i)
	}
	return base
}

// StoreMon checks one exported method of *SharedStore: locking discipline
// (C13) and map-effect summary (C14).
type StoreMon struct {
	R      *Roles
	Col    *Col
	Method string
	Fn     *ssa.Function
	Recv   *eng.Term
	MuIdx  []int
	DatIdx []int
	// Extra: an exported method that is not one of the operations the properties name (the nine
	// map operations, the typed getters, Bind). It has no effect specification and need not be
	// one critical section; it must still touch the map only under the store's lock, keep the
	// map inside the store and take no other lock while holding the store's.
	Extra bool
}

type mapOp struct {
	kind      string // update, delete, clear, replace
	key, val  *eng.Term
	inLoop    string
	underLock int8
}

type storeState struct {
	mode     int8 // 0 none, 1 read, 2 write
	sections int8
	// lookFirst: the earlier sections of this path only read (allowed for result-less writers)
	lookFirst bool
	wrote     bool // some section of this path has changed the store (or a store field)
	ops       []mapOp
	// range loop over a map: id, source, ok term, updates in this iteration, exhausted
	rngLoop    string
	rngSrc     *eng.Term
	rngOK      *eng.Term
	rngK, rngV *eng.Term
	iterOps    int8
	iterBad    string
	exhausted  bool
	earlyExit  bool
	loopCopies bool
	copiedInto *eng.Term   // fresh map that received maps.Copy(fresh, internal)
	appends    []*eng.Term // chain of append results (Keys)
	appendBad  string
	freshDirty []*eng.Term // fresh maps that received updates
}

func (s storeState) Key() string {
	var sb strings.Builder
	fmt.Fprintf(&sb, "%d,%d,%v%v|", s.mode, s.sections, s.lookFirst, s.wrote)
	for _, o := range s.ops {
		fmt.Fprintf(&sb, "%s(%s,%s)@%s/%d;", o.kind, o.key.Key(), o.val.Key(), o.inLoop, o.underLock)
	}
	fmt.Fprintf(&sb, "|%s,%s,%s,%s,%s,%d,%s,%v,%v|", s.rngLoop, s.rngSrc.Key(), s.rngOK.Key(), s.rngK.Key(), s.rngV.Key(), s.iterOps, s.iterBad, s.exhausted, s.earlyExit || s.loopCopies)
	for _, a := range s.appends {
		sb.WriteString(a.Key() + ";")
	}
	sb.WriteString(s.appendBad + "|")
	for _, a := range s.freshDirty {
		sb.WriteString(a.Key() + ";")
	}
	sb.WriteString("|" + s.copiedInto.Key())
	return sb.String()
}
func (s storeState) Terms() []*eng.Term {
	var out []*eng.Term
	add := func(t *eng.Term) {
		if t != nil {
			out = append(out, t)
		}
	}
	for _, o := range s.ops {
		add(o.key)
		add(o.val)
	}
	add(s.copiedInto)
	add(s.rngSrc)
	add(s.rngOK)
	add(s.rngK)
	add(s.rngV)
	for _, a := range s.appends {
		add(a)
	}
	for _, a := range s.freshDirty {
		add(a)
	}
	return out
}
func (s storeState) Rename(sub func(*eng.Term) *eng.Term) eng.MState {
	m := func(t *eng.Term) *eng.Term {
		if t == nil {
			return nil
		}
		return t.Map(sub)
	}
	n := s
	n.ops = nil
	for _, o := range s.ops {
		n.ops = append(n.ops, mapOp{o.kind, m(o.key), m(o.val), o.inLoop, o.underLock})
	}
	n.rngSrc, n.rngOK, n.rngK, n.rngV = m(s.rngSrc), m(s.rngOK), m(s.rngK), m(s.rngV)
	n.copiedInto = m(s.copiedInto)
	mp := func(xs []*eng.Term) []*eng.Term {
		var o []*eng.Term
		for _, x := range xs {
			o = append(o, m(x))
		}
		return o
	}
	n.appends, n.freshDirty = mp(s.appends), mp(s.freshDirty)
	return n
}

func (m *StoreMon) Name() string     { return "store" }
func (m *StoreMon) Init() eng.MState { return storeState{} }

func (m *StoreMon) dataAddr() *eng.Term { return fieldPathAddr(m.Recv, m.DatIdx) }
func (m *StoreMon) muAddr() *eng.Term   { return fieldPathAddr(m.Recv, m.MuIdx) }
func (m *StoreMon) mapTerm() *eng.Term  { return eng.Load(m.dataAddr()) }

// isInternal: the term is (or was read from) the store's own map.
func (m *StoreMon) isInternal(c *eng.Ctx, t *eng.Term) bool {
	if t == nil {
		return false
	}
	if t == m.mapTerm() {
		return true
	}
	// after a replace the field holds a fresh map: the current content of the field counts as internal
	return t == c.Mem(m.dataAddr())
}

func (m *StoreMon) OnEvent(c *eng.Ctx, ms eng.MState, ev *eng.Event) eng.MState {
	s := ms.(storeState)
	con := func(role string) string { return "SharedStore." + m.Method + ":" + role }
	chk := func(rule, role string, ok bool, msg string) {
		m.Col.Check(rule, con(role), ok, ev.Pos, msg, pathIf(!ok, c))
	}
	needRead := func(what string) {
		chk("C13.R1", "access", s.mode >= 1, what+" without holding the store's lock: concurrent writers race with it")
	}
	needWrite := func(what string) {
		s.wrote = true
		chk("C13.R1", "access", s.mode == 2, what+" without holding the write lock (mode "+modeName(s.mode)+"): readers can observe a partial update")
	}
	// the innermost loop the event happens in - in its own function or, when that function is a
	// loop body handed to a helper (a callback, the body of a range-over-func), in a caller's
	loopOf := func() string {
		fi := c.E.InfoOf(ev.Fn)
		if ev.Instr != nil && ev.Instr.Block() != nil {
			if l := fi.LoopOf(ev.Instr.Block()); l != nil {
				return eng.LoopID(ev.FrameCtx, l.Header)
			}
		}
		for k := 1; k < c.St.Depth(); k++ {
			fn, blk := c.St.FrameFn(k), c.St.FrameBlock(k)
			if fn == nil || blk == nil {
				break
			}
			if l := c.E.InfoOf(fn).LoopOf(blk); l != nil {
				return eng.LoopID(c.St.FrameCtx(k), l.Header)
			}
		}
		return ""
	}
	switch ev.Kind {
	case "call":
		switch ev.Class {
		case "lock", "rlock", "trylock":
			isOwn := len(ev.Args) > 0 && ev.Args[0] == m.muAddr()
			if m.Extra && !isOwn && m.otherStoreMu(ev) {
				// an operation of another store, called from an additional method: it is that store's
				// own critical section; holding this store's lock across it would order the two locks
				chk("C13.R3", "lock", s.mode == 0, "another store's lock is taken while this store's lock is held (lock-order inversion between two stores can deadlock)")
				return s
			}
			chk("C13.R3", "lock", isOwn, "a mutex other than the store's own is taken: "+prettyArgs(ev.Args))
			chk("C13.R4", "lock", s.mode == 0, "the store's lock is taken while already held (self-deadlock / nested section)")
			// a writer without results (Set, Delete, Clear, Merge) may look at the store under an earlier
			// section first (a read-lock fast path): its effect is specified independently of the state,
			// so the operation is its last section as long as the earlier ones changed nothing
			lookFirst := s.sections >= 1 && len(s.ops) == 0 && !s.wrote && (m.Method == "Set" || m.Method == "Delete" || m.Method == "Clear" || m.Method == "Merge")
			if lookFirst {
				s.lookFirst = true
			}
			chk("C13.R2", "lock", s.sections == 0 || m.Extra || lookFirst, "a second critical section is entered in one operation: the operation is no longer atomic (another goroutine can interleave between the sections)")
			chk("C13.R3", "lock", ev.Class != "trylock", "TryLock may fail and is not handled by the discipline")
			if ev.Class == "rlock" {
				s.mode = 1
			} else {
				s.mode = 2
			}
			if s.sections < 2 {
				s.sections++
			}
		case "unlock", "runlock":
			if m.Extra && m.otherStoreMu(ev) {
				return s
			}
			want := int8(2)
			if ev.Class == "runlock" {
				want = 1
			}
			chk("C13.R3", "unlock", s.mode == want, "unlock does not match the held lock mode ("+modeName(s.mode)+")")
			s.mode = 0
		default:
			// the internal map must not be handed to other code (except pure copies)
			for i, a := range ev.Args {
				if m.isInternal(c, a) {
					okCall := false
					switch ev.Class {
					case "call:maps.Clone", "call:maps.Keys", "call:maps.Values", "call:maps.All":
						okCall = true
					case "call:maps.Copy":
						okCall = true // as source: a read; as destination: a write (checked below)
					}
					if okCall {
						if !(ev.Class == "call:maps.Copy" && i == 0) {
							needRead("copying the map")
						}
					} else {
						chk("C13.R5,C14.R4", "escape", false, "the store's internal map is passed to "+ev.Class+": it escapes the critical section")
					}
				}
			}
			if ev.Class == "call:maps.Copy" && len(ev.Args) == 2 && isFreshMap(ev.Args[0]) && m.isInternal(c, ev.Args[1]) {
				// snapshot := make(...); maps.Copy(snapshot, internal): a complete copy into a fresh map
				s.freshDirty = appendUniq(s.freshDirty, ev.Args[0], 4)
				s.copiedInto = ev.Args[0]
			}
			if ev.Class == "call:maps.Copy" && len(ev.Args) == 2 && m.isInternal(c, ev.Args[0]) {
				needWrite("maps.Copy into the store")
				s.ops = appendOp(s.ops, mapOp{kind: "copyall", val: ev.Args[1], underLock: s.mode})
			}
		}
	case "enter":
		if ev.Callee != nil && ev.Callee.Signature.Recv() != nil && recvName(ev.Callee.Signature.Recv().Type()) == "SharedStore" {
			// an unexported helper is part of the operation (if it locks, the lock event itself is
			// reported); an exported method is another operation with its own critical section
			chk("C13.R4", "nested-call", s.mode == 0 || !ev.Callee.Object().Exported(), "another store operation ("+ev.Callee.Name()+") is called while the lock is held (self-deadlock)")
		}
	case "load":
		if ev.Addr == m.dataAddr() {
			needRead("reading the store's map field")
		}
	case "store":
		if ev.Addr == m.dataAddr() {
			needWrite("replacing the store's map")
			fresh := isFreshMap(ev.Val)
			dirty := false
			for _, f := range s.freshDirty {
				if f == ev.Val {
					dirty = true
				}
			}
			chk("C14.R2", "map-replace", fresh && ev.Val.K == eng.KMake, "the store's map field may only be replaced by a map freshly made in the call (never nil, never a caller's map); got "+ev.Val.Pretty())
			kind := "replace"
			if dirty {
				kind = "replace-nonempty"
			}
			s.ops = appendOp(s.ops, mapOp{kind: kind, val: ev.Val, underLock: s.mode})
		} else if root := eng.DescribeAddr(ev.Addr); strings.HasPrefix(root, "param:"+m.Recv.S) {
			if m.Extra {
				// an additional method may keep state of its own in the store (a listener, a counter),
				// under the write lock like everything else
				chk("C13.R1", "access", s.mode == 2, "a field of the store is written without holding the write lock: "+ev.Addr.Pretty())
			} else {
				chk("C13.R1", "access", false, "a field of the store other than its map is written: "+ev.Addr.Pretty())
			}
		}
		if m.isInternal(c, ev.Val) && ev.Addr != m.dataAddr() {
			chk("C13.R5,C14.R4", "escape", false, "the store's internal map is stored into "+ev.Addr.Pretty())
		}
		// Keys may fill a slice made with len(map) by index: slot i of the i-th iteration
		// (a counter that starts at 0 and steps by 1 with the range loop) receives the range key
		if ev.Addr.K == eng.KIndexAddr {
			base, idx := ev.Addr.A[0], ev.Addr.A[1]
			if lp := loopOf(); lp != "" && lp == s.rngLoop && base.K == eng.KMake && base.T != nil {
				s.iterOps++
				k, off := eng.AffParts(idx)
				okIdx := k != nil && k.K == eng.KSym && off == 0
				if okIdx {
					if st, known := c.E.IVStep[k.S]; known && st != 1 { // unknown until the first back edge
						okIdx = false
					}
				}
				if okIdx {
					l, _ := eng.IVLoop(k.S)
					okIdx = l == lp
					// the counter starts at 0: its lower bound is the initial value
					b := c.E.Bounds(c.St, k)
					okIdx = okIdx && b.HasLo && b.Lo >= 0 && c.Eval(eng.Bin("<", k, eng.ConstInt(0))) == eng.TriFalse
					if b.HasLo && b.HasHi && b.Lo == b.Hi && b.Lo != 0 {
						okIdx = false // first iteration: the counter's initial value is not 0
					}
				}
				okLen := len(base.A) >= 1 && base.A[0] != nil && base.A[0].K == eng.KLen && m.isInternal(c, base.A[0].A[0])
				if s.iterBad == "" {
					switch {
					case ev.Val != s.rngK:
						s.iterBad = "the value stored into the snapshot is not the store's key of this iteration"
					case !okIdx:
						s.iterBad = "the snapshot slot written (" + idx.Pretty() + ") is not a counter that starts at 0 and advances by one per key"
					case !okLen:
						s.iterBad = "the snapshot filled by index is not made with the length of the store's map"
					}
				}
				s.appends = appendUniq(s.appends, base, 3)
			}
		}
	case "lookup":
		if m.isInternal(c, ev.Addr) {
			needRead("map lookup")
		}
	case "len":
		if m.isInternal(c, ev.Addr) {
			needRead("len of the store's map")
		}
	case "range":
		if m.isInternal(c, ev.Addr) {
			needRead("ranging over the store's map")
		}
		s.rngSrc = ev.Addr
		s.rngLoop, s.rngOK, s.iterOps, s.iterBad, s.exhausted, s.earlyExit = "", nil, 0, "", false, false
	case "next":
		if ev.Addr != nil && ev.Addr.K == eng.KRange && m.isInternal(c, ev.Addr.A[0]) {
			needRead("iterating the store's map")
		}
		if len(ev.Results) == 3 {
			s.rngOK, s.rngK, s.rngV = ev.Results[0], ev.Results[1], ev.Results[2]
			s.rngLoop = loopOf()
			s.iterOps = 0
		}
	case "loophead":
		if ev.Taken && ev.Site == s.rngLoop {
			// an iteration of the range loop completed
			if s.iterOps != 1 && s.iterBad == "" {
				s.iterBad = fmt.Sprintf("an iteration over the source map performed %d copy operations (want exactly one, unconditionally)", s.iterOps)
			}
		}
	case "branch":
		if s.rngOK != nil && ev.Cond == s.rngOK && !ev.Taken {
			s.exhausted = true
		}
	case "mapupdate":
		lp := loopOf()
		if m.isInternal(c, ev.Addr) {
			needWrite("writing the store's map")
			if lp != "" && lp == s.rngLoop {
				// per-iteration copies are summarised, not listed
				s.loopCopies = true
			} else {
				s.ops = appendOp(s.ops, mapOp{kind: "update", key: ev.Key, val: ev.Val, inLoop: lp, underLock: s.mode})
			}
			if lp != "" && lp == s.rngLoop {
				s.iterOps++
				if !(ev.Key == s.rngK && ev.Val == s.rngV) && s.iterBad == "" {
					s.iterBad = "the entry copied into the store is (" + ev.Key.Pretty() + ", " + ev.Val.Pretty() + "), not the source entry of this iteration"
				}
			}
		} else {
			if isFreshMap(ev.Addr) {
				s.freshDirty = appendUniq(s.freshDirty, ev.Addr, 4)
				if lp != "" && lp == s.rngLoop {
					s.iterOps++
					if !(ev.Key == s.rngK && ev.Val == s.rngV) && s.iterBad == "" {
						s.iterBad = "the entry copied into the snapshot is (" + ev.Key.Pretty() + ", " + ev.Val.Pretty() + "), not the store's entry of this iteration"
					}
				}
			} else {
				chk("C14.R1", "foreign-write", false, "a map that is neither the store's own nor made in this call is written: "+ev.Addr.Pretty())
			}
		}
	case "mapdelete":
		if m.isInternal(c, ev.Addr) {
			needWrite("deleting from the store's map")
			s.ops = appendOp(s.ops, mapOp{kind: "delete", key: ev.Key, inLoop: loopOf(), underLock: s.mode})
		}
	case "clear":
		if m.isInternal(c, ev.Addr) {
			needWrite("clearing the store's map")
			s.ops = appendOp(s.ops, mapOp{kind: "clear", underLock: s.mode})
		}
	case "append":
		lp := loopOf()
		if len(ev.Args) >= 1 && len(ev.Results) == 1 {
			// Keys builds its snapshot by appending the range key once per iteration
			elems := c.E.SliceElems(c.St, ev.Args[len(ev.Args)-1])
			okElem := len(elems) == 1 && elems[0] == s.rngK
			if lp != "" && lp == s.rngLoop {
				s.iterOps++
				if !okElem && s.iterBad == "" {
					s.iterBad = "the value appended to the snapshot is not the store's key of this iteration"
				}
			}
			if b := ev.Args[0]; b.K == eng.KMake && b.T != nil && len(b.A) >= 1 && b.A[0] != nil && !(b.A[0].IsConstInt() && b.A[0].I == 0) && s.iterBad == "" {
				s.iterBad = "the snapshot the keys are appended to does not start empty (made with length " + b.A[0].Pretty() + "): it would hand out entries that are not keys of the store"
			}
			s.appends = appendUniq(s.appends, ev.Results[0], 3)
		}
	case "return", "panic":
		if ev.Kind == "return" {
			chk("C13.R3", "return", s.mode == 0, "the operation returns while still holding the lock ("+modeName(s.mode)+")")
			for _, rv := range ev.Results {
				if m.isInternal(c, rv) || m.isInternal(c, unbox(rv)) {
					chk("C13.R5,C14.R4", "escape", false, "the store's internal map is returned to the caller")
				}
			}
			if m.Extra {
				return s
			}
			chk("C13.R2", "return", s.sections <= 1 || s.lookFirst, "more than one critical section on this path")
			m.checkSpec(c, s, ev)
		}
	}
	return s
}

// otherStoreMu: the lock event is on the mutex field of a SharedStore other than the receiver.
func (m *StoreMon) otherStoreMu(ev *eng.Event) bool {
	if len(ev.Args) == 0 {
		return false
	}
	a := ev.Args[0]
	return a != m.muAddr() && a.K == eng.KFieldAddr && len(m.MuIdx) > 0 && a.I == int64(m.MuIdx[len(m.MuIdx)-1]) && ev.Fn != nil && ev.Fn.Signature.Recv() != nil &&
		recvName(ev.Fn.Signature.Recv().Type()) == "SharedStore"
}

// isFreshMap: a map made during the analysed call.
func isFreshMap(t *eng.Term) bool {
	if t == nil || t.K != eng.KMake || t.T == nil {
		return false
	}
	_, ok := t.T.Underlying().(*types.Map)
	return ok
}

func modeName(m int8) string {
	switch m {
	case 1:
		return "read lock"
	case 2:
		return "write lock"
	}
	return "no lock"
}

func appendOp(ops []mapOp, o mapOp) []mapOp {
	out := append([]mapOp(nil), ops...)
	if len(out) >= 6 {
		// saturate: keep a marker that there were many
		out[len(out)-1] = mapOp{kind: "many"}
		return out
	}
	return append(out, o)
}

// checkSpec compares the path's map-effect summary and results with the
// specification of the method (C14.R1).
func (m *StoreMon) checkSpec(c *eng.Ctx, s storeState, ev *eng.Event) {
	con := "SharedStore." + m.Method + ":effect-summary"
	fail := func(msg string) { m.Col.Check("C14.R1,C13.R7", con, false, ev.Pos, msg, pathIf(true, c)) }
	pass := func() { m.Col.Check("C14.R1,C13.R7", con, true, ev.Pos, "", nil) }
	M := m.mapTerm()
	params := m.Fn.Params // [recv, ...]
	param := func(i int) *eng.Term {
		if i < len(params) {
			return eng.Param(i, params[i].Name())
		}
		return nil
	}
	var muts []mapOp
	for _, o := range s.ops {
		muts = append(muts, o)
	}
	opsStr := func() string {
		var p []string
		for _, o := range muts {
			p = append(p, fmt.Sprintf("%s(%s,%s)", o.kind, o.key.Pretty(), o.val.Pretty()))
		}
		return "[" + strings.Join(p, " ") + "]"
	}
	// a writer may first give a store whose map is nil (a zero-value store) a fresh empty map: on a
	// path that knows the old map to be nil this changes nothing observable
	if len(muts) >= 1 && muts[0].kind == "replace" && c.IsNil(M) == eng.TriTrue && (m.Method == "Set" || m.Method == "Merge") {
		muts = muts[1:]
	}
	noMut := func() bool { return len(muts) == 0 }
	res := ev.Results
	switch m.Method {
	case "Set":
		if len(muts) == 1 && muts[0].kind == "update" && muts[0].key == param(1) && muts[0].val == param(2) && muts[0].inLoop == "" {
			pass()
		} else {
			fail("Set(key, value) must perform exactly one store of value under key on every path; this path does " + opsStr())
		}
	case "Get":
		ok := noMut() && len(res) == 2 && res[0] == eng.Lookup(M, param(1)) && res[1] == eng.LookupOk(M, param(1))
		if ok {
			pass()
		} else {
			fail("Get(key) must return both results of one lookup of key and change nothing; returns (" + prettyArgs(res) + "), effects " + opsStr())
		}
	case "Has":
		ok := noMut() && len(res) == 1 && res[0] == eng.LookupOk(M, param(1))
		if ok {
			pass()
		} else {
			fail("Has(key) must return the presence bit of a lookup of key (a stored nil is present); returns (" + prettyArgs(res) + "), effects " + opsStr())
		}
	case "Delete":
		if len(muts) == 1 && muts[0].kind == "delete" && muts[0].key == param(1) && muts[0].inLoop == "" {
			pass()
		} else if noMut() && s.sections <= 1 && c.Eval(eng.LookupOk(M, param(1))) == eng.TriFalse {
			pass() // the key was seen absent in the operation's only section: nothing to delete
		} else {
			fail("Delete(key) must delete exactly key on every path; this path does " + opsStr())
		}
	case "Len":
		ok := noMut() && len(res) == 1 && res[0] == eng.Len(M)
		if ok {
			pass()
		} else {
			fail("Len must return len of the store's map and change nothing; returns (" + prettyArgs(res) + ")")
		}
	case "Clear":
		ok := len(muts) == 1 && (muts[0].kind == "clear" || muts[0].kind == "replace")
		if ok {
			pass()
		} else {
			fail("Clear must empty the store (replace the map by a fresh empty one, or clear it) exactly once; this path does " + opsStr())
		}
	case "Merge":
		src := param(1)
		if c.IsNil(src) == eng.TriTrue {
			if noMut() {
				pass()
			} else {
				fail("Merge(nil) must do nothing; this path does " + opsStr())
			}
			return
		}
		// every mutation is a copy inside the range loop over the argument, or one maps.Copy
		if len(muts) == 1 && muts[0].kind == "copyall" && muts[0].val == src {
			pass()
			return
		}
		if s.rngSrc != src {
			if noMut() && c.Eval(eng.Bin("==", eng.Len(src), eng.ConstInt(0))) == eng.TriTrue {
				pass()
				return
			}
			fail("Merge must copy every entry of its argument; no iteration over the argument on this path (effects " + opsStr() + ")")
			return
		}
		if len(muts) > 0 {
			fail("Merge may only copy entries of its argument into the store (inside the loop over the argument); this path also does " + opsStr())
			return
		}
		if s.iterBad != "" {
			fail(s.iterBad)
			return
		}
		if !s.exhausted {
			fail("Merge leaves the loop over its argument before all entries were copied")
			return
		}
		pass()
	case "Keys":
		ok := noMut() && len(res) == 1
		if !ok {
			fail("Keys must not change the store; effects " + opsStr())
			return
		}
		r0 := res[0]
		switch {
		case r0.K == eng.KEv && strings.HasPrefix(c.E.SiteClass[r0.S], "call:slices."):
			pass() // slices.Collect / slices.Sorted over maps.Keys: fresh by contract
		case s.rngSrc != nil && m.isInternal(c, s.rngSrc):
			if s.iterBad != "" {
				fail(s.iterBad)
			} else if !s.exhausted {
				fail("Keys leaves the loop over the store before all keys were collected")
			} else if !(r0.K == eng.KMake) {
				fail("Keys must return a slice allocated in the call, got " + r0.Pretty())
			} else {
				pass()
			}
		default:
			fail("Keys does not iterate over the store's map")
		}
	case "GetAll":
		ok := noMut() && len(res) == 1
		if !ok {
			fail("GetAll must not change the store; effects " + opsStr())
			return
		}
		r0 := res[0]
		switch {
		case r0.K == eng.KEv && c.E.SiteClass[r0.S] == "call:maps.Clone":
			pass()
		case r0.K == eng.KMake && s.copiedInto == r0:
			pass() // make + maps.Copy(fresh, internal)
		case r0.K == eng.KMake && s.rngSrc != nil && m.isInternal(c, s.rngSrc):
			if s.iterBad != "" {
				fail(s.iterBad)
			} else if !s.exhausted {
				fail("GetAll leaves the loop over the store before all entries were copied")
			} else {
				pass()
			}
		default:
			fail("GetAll must return a map made in the call holding a copy of every entry, got " + r0.Pretty())
		}
	default:
		// derived methods (typed getters, Bind): readers
		if noMut() {
			pass()
		} else {
			fail("a reader method changes the store: " + opsStr())
		}
	}
}

// freshMon records maps made during the call (shared with StoreMon through the state is
// not possible, so StoreMon tracks them itself via "alloc" of MakeMap results in events).

// AnalyzeStore explores every method of *SharedStore.
func AnalyzeStore(p *load.Program, r *Roles, depth int) *UnitResult {
	res := &UnitResult{Col: NewCol()}
	col := res.Col
	mu, data, ok := storeFields(r)
	if !ok {
		col.Unproven("C13.R0,C14.R0", "SharedStore:fields", p.Position(0), "cannot identify the mutex and map fields of SharedStore by their types", nil)
		return res
	}
	ms := p.Prog.MethodSets.MethodSet(types.NewPointer(r.SharedStore))
	var names []string
	for i := 0; i < ms.Len(); i++ {
		names = append(names, ms.At(i).Obj().Name())
	}
	sort.Strings(names)
	specNeeded := map[string]bool{"Set": true, "Get": true, "Has": true, "Delete": true, "Len": true, "Clear": true, "Merge": true, "Keys": true, "GetAll": true}
	// the operations the properties name: the nine map operations and the derived readers (typed
	// getters with their Or forms, Bind). Any other exported method is an addition (StoreMon.Extra).
	named := map[string]bool{"Bind": true, "MustBind": true}
	for n := range specNeeded {
		named[n] = true
	}
	for _, t := range []string{"String", "Int", "Float64", "Bool", "Slice", "Map"} {
		named["Get"+t], named["Get"+t+"Or"] = true, true
	}
	for _, name := range names {
		fn := p.Method("SharedStore", name)
		if fn == nil || len(fn.Blocks) == 0 || !fn.Object().Exported() {
			continue
		}
		delete(specNeeded, name)
		mon := &StoreMon{R: r, Col: col, Method: name, Fn: fn, Recv: eng.Param(0, fn.Params[0].Name()), MuIdx: mu, DatIdx: data, Extra: !named[name]}
		var e *eng.Engine
		cfg := eng.Config{Prog: p.Prog, Pkg: p.SSA, Fset: p.Fset, Root: fn, MaxDepth: depth, MaxStates: 20000,
			Classify: r.Classifier(Mode{}), IntLowerBound: budgetLowerBound(&e), Monitors: []eng.Monitor{&makeMapMon{}, mon}, LoadEvents: true}
		e = eng.New(cfg)
		e.Run()
		res.Stats.add(e, fn)
		for _, pr := range e.SortedProblems() {
			if pr.Kind == "instr" {
				continue
			}
			col.Unproven("C13.ENGINE,C14.ENGINE", "engine:"+name+":"+pr.Kind, pr.Pos, pr.Msg, nil)
		}
		col.Check("C13.R6", "SharedStore."+name+":classified", true, p.Position(fn.Pos()), "", nil)
	}
	for name := range specNeeded {
		col.Unproven("C14.R1", "SharedStore."+name+":effect-summary", p.Position(0), "method "+name+" of the map specification not found", nil)
	}
	// NewSharedStore: the map field starts as a fresh non-nil map
	if fn := p.Func("NewSharedStore"); fn != nil {
		e := eng.New(eng.Config{Prog: p.Prog, Pkg: p.SSA, Fset: p.Fset, Root: fn, Classify: r.Classifier(Mode{})})
		e.Run()
		res.Stats.add(e, fn)
		for _, rt := range e.Returns {
			okv := false
			if !rt.Panic && len(rt.Vals) == 1 {
				c := &eng.Ctx{E: e, St: rt.State}
				obj := c.Mem(rt.Vals[0])
				for _, k := range data {
					if obj == nil || obj.K != eng.KStruct || k >= len(obj.A) {
						obj = nil
						break
					}
					obj = obj.A[k]
				}
				okv = obj != nil && obj.K == eng.KMake
			}
			col.Check("C14.R2", "NewSharedStore:map-init", okv, rt.Pos, "NewSharedStore must start with a fresh non-nil map", nil)
		}
	} else {
		col.Unproven("C14.R2", "NewSharedStore:map-init", p.Position(0), "NewSharedStore not found", nil)
	}
	return res
}

// makeMapMon is a helper monitor that does nothing; fresh maps are detected by StoreMon
// through the terms themselves (KMake of map type created in the call).
type makeMapMon struct{}

func (makeMapMon) Name() string     { return "mk" }
func (makeMapMon) Init() eng.MState { return unitState{} }
func (makeMapMon) OnEvent(c *eng.Ctx, ms eng.MState, ev *eng.Event) eng.MState {
	return ms
}
