package rules

import (
	"fmt"
	"go/token"
	"go/types"
	"strings"

	"flytsa/internal/eng"
	"flytsa/internal/load"

	"golang.org/x/tools/go/ssa"
)

// userCallMon records the calls of user-supplied function values (struct
// fields of function type, captured function variables).
type userCall struct {
	class  string
	args   []*eng.Term
	res    []*eng.Term
	pos    string
	fnTerm *eng.Term // the function value called (field / dynamic calls)
	locked bool      // a mutex was held when the call was made
}
type userCallState struct {
	calls []userCall
	held  int8 // mutexes currently held (read or write)
}

func (s userCallState) Key() string {
	var sb strings.Builder
	fmt.Fprintf(&sb, "%d|", s.held)
	for _, c := range s.calls {
		sb.WriteString(c.class + fmt.Sprint(c.locked) + "(")
		for _, a := range c.args {
			sb.WriteString(a.Key() + ",")
		}
		sb.WriteString(")")
	}
	return sb.String()
}
func (s userCallState) Terms() []*eng.Term {
	var out []*eng.Term
	for _, c := range s.calls {
		out = append(out, c.args...)
		out = append(out, c.res...)
		if c.fnTerm != nil {
			out = append(out, c.fnTerm)
		}
	}
	return out
}
func (s userCallState) Rename(sub func(*eng.Term) *eng.Term) eng.MState {
	n := userCallState{held: s.held}
	for _, c := range s.calls {
		nc := userCall{class: c.class, pos: c.pos, locked: c.locked}
		if c.fnTerm != nil {
			nc.fnTerm = c.fnTerm.Map(sub)
		}
		for _, a := range c.args {
			nc.args = append(nc.args, a.Map(sub))
		}
		for _, a := range c.res {
			nc.res = append(nc.res, a.Map(sub))
		}
		n.calls = append(n.calls, nc)
	}
	return n
}

type userCallMon struct{}

func (userCallMon) Name() string     { return "usercalls" }
func (userCallMon) Init() eng.MState { return userCallState{} }
func (userCallMon) OnEvent(c *eng.Ctx, ms eng.MState, ev *eng.Event) eng.MState {
	s := ms.(userCallState)
	if ev.Kind == "call" {
		switch ev.Class {
		case "lock", "rlock":
			if s.held < 3 {
				s.held++
			}
			return s
		case "unlock", "runlock":
			if s.held > 0 {
				s.held--
			}
			return s
		}
	}
	if ev.Kind == "call" && (strings.HasPrefix(ev.Class, "field:") || strings.HasPrefix(ev.Class, "dyn:") || strings.HasPrefix(ev.Class, "sum:")) && len(s.calls) < 4 {
		n := userCallState{held: s.held, calls: append(append([]userCall(nil), s.calls...), userCall{class: ev.Class, args: ev.Args, res: ev.Results, pos: posStr(ev.Pos), fnTerm: ev.FnTerm, locked: s.held > 0})}
		return n
	}
	return s
}

// adapterRun explores one adapter function.
type adapterPath struct {
	rets  []*eng.Term
	calls []userCall
	st    *eng.State
	e     *eng.Engine
	pos   string
	panic bool
}

func exploreAdapter(p *load.Program, r *Roles, res *UnitResult, fn *ssa.Function, mode Mode, free []*eng.Term, paramInit map[int]*eng.Term, initFacts func(e *eng.Engine, f *eng.Facts), ruleForProblems string) []adapterPath {
	e := eng.New(eng.Config{Prog: p.Prog, Pkg: p.SSA, Fset: p.Fset, Root: fn, RootFree: free, MaxDepth: 8, MaxStates: 20000,
		Classify: r.Classifier(mode), Monitors: []eng.Monitor{userCallMon{}}, KeepFacts: true, ParamInit: paramInit, InitFacts: initFacts})
	e.Run()
	res.Stats.add(e, fn)
	for _, pr := range e.SortedProblems() {
		res.Col.Unproven(ruleForProblems, "engine:"+funcLabel(fn)+":"+pr.Kind, pr.Pos, pr.Msg, nil)
	}
	var out []adapterPath
	for _, rt := range e.Returns {
		ucs, _ := rt.State.MonByName(e, "usercalls").(userCallState)
		out = append(out, adapterPath{rets: rt.Vals, calls: ucs.calls, st: rt.State, e: e, pos: posStr(rt.Pos), panic: rt.Panic})
	}
	return out
}

// resultFields: indexes of the value and error fields of Result.
func resultFields(r *Roles) (val, err int, ok bool) {
	val, err = -1, -1
	st, isS := r.Result.Underlying().(*types.Struct)
	if !isS {
		return
	}
	for i := 0; i < st.NumFields(); i++ {
		ft := st.Field(i).Type()
		if isNamed(ft, "", "error") || ft.String() == "error" {
			err = i
		} else if types.IsInterface(ft) && val < 0 {
			val = i
		}
	}
	return val, err, val >= 0 && err >= 0
}

// AnalyzeAdapters decides C17 and the delegation rules of C01 (R6, R7).
func AnalyzeAdapters(p *load.Program, r *Roles, depth int) *UnitResult {
	res := &UnitResult{Col: NewCol()}
	col := res.Col
	if r.CustomNode == nil || r.Result == nil {
		col.Unproven("C17.R0", "types", p.Position(0), "CustomNode / Result not found", nil)
		return res
	}
	vi, ei, ok := resultFields(r)
	if !ok {
		col.Unproven("C17.R0", "Result:fields", p.Position(0), "cannot identify the value and error fields of Result", nil)
		return res
	}
	resT := r.Result
	mode := Mode{}
	cn := func(m string) *ssa.Function { return p.DeclaredMethod("CustomNode", m) }

	// valueOf: the term Value() yields for result term R on a path (nil for error results)
	isErrOn := func(pth adapterPath, R *eng.Term) eng.Tri {
		return pth.e.Eval(pth.st.Facts(), eng.Bin("!=", eng.Field(R, ei), eng.Nil()))
	}
	// expected Result seen by the consumer's user function, given what the producer's user function returned
	// mustBeSame: the consumer must receive R itself (error results from exec)
	checkConsumer := func(rule, label string, consumer *ssa.Function, paramIdx int, O *eng.Term, prodFacts map[*eng.Term]bool, userClass string, argIdx int, R *eng.Term, errState eng.Tri, payloads []*eng.Term, valueOnly bool) {
		init := func(e *eng.Engine, f *eng.Facts) {
			for k, v := range prodFacts {
				e.Assume(f, k, v)
			}
			// A5: user payloads are not themselves Results
			for _, u := range payloads {
				e.Assume(f, eng.TAOk(u, resT), false)
			}
		}
		paths := exploreAdapter(p, r, res, consumer, mode, nil, map[int]*eng.Term{paramIdx: O}, init, rule)
		seen := 0
		for _, pth := range paths {
			for _, uc := range pth.calls {
				if uc.class != userClass || argIdx >= len(uc.args) {
					continue
				}
				seen++
				got := uc.args[argIdx]
				ok, want := false, ""
				switch {
				case R == nil:
					// producer value is a plain payload O: the function must see Result{value: O}
					ok = got.K == eng.KStruct && got.A[vi] == O && got.A[ei].K == eng.KNil
					want = "a Result holding exactly " + O.Pretty()
				case errState == eng.TriTrue && valueOnly:
					// the value of an error Result is nil (Result.Value): that is what the next phase sees
					ok = got.K == eng.KStruct && got.A[vi].K == eng.KNil && got.A[ei].K == eng.KNil
					want = "a Result holding the (nil) value of the error Result the prep function returned"
				case errState == eng.TriTrue:
					ok = got == R
					want = "the error Result itself (" + R.Pretty() + "), neither wrapped again nor stripped"
				default:
					okStruct := got.K == eng.KStruct && got.A[vi] == eng.Field(R, vi) && got.A[ei].K == eng.KNil
					ok = got == R || okStruct
					want = "a Result whose value is the value the previous phase's function returned (" + eng.Field(R, vi).Pretty() + ")"
				}
				col.CheckAt(rule, label, ok, uc.pos, "the function receives "+got.Pretty()+"; it must receive "+want, nil)
			}
		}
		col.CheckAt(rule, label+":reached", seen > 0, "", "the consumer never calls its function for this producer outcome", nil)
	}

	type producer struct {
		fn        *ssa.Function
		userClass string
	}
	prodPaths := func(pr producer) (out []struct {
		O, R  *eng.Term
		err   eng.Tri
		facts map[*eng.Term]bool
	}) {
		if pr.fn == nil {
			return
		}
		for _, pth := range exploreAdapter(p, r, res, pr.fn, mode, nil, nil, nil, "C17.ENGINE") {
			if pth.panic || len(pth.rets) != 2 || pth.e.Eval(pth.st.Facts(), eng.Bin("==", pth.rets[1], eng.Nil())) != eng.TriTrue {
				continue // error return: the lifecycle stops (C01/C04)
			}
			var R *eng.Term
			for _, uc := range pth.calls {
				if uc.class == pr.userClass && len(uc.res) > 0 {
					R = uc.res[0]
				}
			}
			if R == nil {
				continue // default implementation path (no user function)
			}
			facts := map[*eng.Term]bool{}
			for k, v := range pth.st.Facts().Bools() {
				if k.Contains(R) {
					facts[k] = v
				}
			}
			out = append(out, struct {
				O, R  *eng.Term
				err   eng.Tri
				facts map[*eng.Term]bool
			}{pth.rets[0], R, isErrOn(pth, R), facts})
		}
		return
	}

	// P1/P2: prep function's Result -> exec function / post function
	prepP := prodPaths(producer{cn("Prep"), "field:CustomNode.prepFunc"})
	col.Check("C17.R1", "CustomNode.Prep:producer", len(prepP) > 0, p.Position(r.CustomNode.Obj().Pos()), "CustomNode.Prep never returns the prep function's result", nil)
	for _, pp := range prepP {
		payload := []*eng.Term{eng.Field(pp.R, vi)}
		if fn := cn("Exec"); fn != nil && len(fn.Params) == 3 {
			checkConsumer("C17.R1", "prep->exec", fn, 2, pp.O, pp.facts, "field:CustomNode.execFunc", 1, pp.R, pp.err, payload, true)
		}
		if fn := cn("Post"); fn != nil && len(fn.Params) == 5 {
			checkConsumer("C17.R1", "prep->post", fn, 3, pp.O, pp.facts, "field:CustomNode.postFunc", 2, pp.R, pp.err, payload, true)
		}
	}
	// P3: exec function's Result -> post function (value, or error state)
	execP := prodPaths(producer{cn("Exec"), "field:CustomNode.execFunc"})
	col.Check("C17.R2", "CustomNode.Exec:producer", len(execP) >= 2, p.Position(r.CustomNode.Obj().Pos()), "CustomNode.Exec must distinguish error results from value results of the exec function", nil)
	for _, ep := range execP {
		if fn := cn("Post"); fn != nil && len(fn.Params) == 5 {
			checkConsumer("C17.R1,C17.R2", "exec->post", fn, 4, ep.O, ep.facts, "field:CustomNode.postFunc", 3, ep.R, ep.err, []*eng.Term{eng.Field(ep.R, vi)}, false)
		}
	}
	// P4: fallback's plain value -> post function
	if fb, post := cn("ExecFallback"), cn("Post"); fb != nil && post != nil && len(post.Params) == 5 {
		for _, pth := range exploreAdapter(p, r, res, fb, mode, nil, nil, nil, "C17.ENGINE") {
			for _, uc := range pth.calls {
				if uc.class == "field:CustomNode.execFallbackFunc" && len(uc.res) == 2 && len(pth.rets) == 2 {
					col.CheckAt("C17.R2,C06.R8,C07.R7,C02.R4", "fallback:passthrough", pth.rets[0] == uc.res[0] && pth.rets[1] == uc.res[1], uc.pos, "CustomNode.ExecFallback must return the fallback function's results unchanged", nil)
					checkConsumer("C17.R1", "fallback->post", post, 4, uc.res[0], nil, "field:CustomNode.postFunc", 3, nil, eng.TriFalse, []*eng.Term{uc.res[0]}, false)
				}
			}
		}
	}
	// P5: a batch item (already a Result) -> exec function
	if fn := cn("Exec"); fn != nil && len(fn.Params) == 3 {
		item := eng.Sym("batch-item", 0)
		paths := exploreAdapter(p, r, res, fn, mode, nil, map[int]*eng.Term{2: eng.Box(resT, item)}, nil, "C17.ENGINE")
		n := 0
		for _, pth := range paths {
			for _, uc := range pth.calls {
				if uc.class == "field:CustomNode.execFunc" && len(uc.args) == 2 {
					n++
					col.CheckAt("C17.R1", "item->exec", uc.args[1] == item, uc.pos, "a batch item (a Result) handed to exec must reach the exec function unwrapped, got "+uc.args[1].Pretty(), nil)
				}
			}
		}
		col.CheckAt("C17.R1", "item->exec:reached", n > 0, "", "exec function never called for a batch item", nil)
	}

	// --- the Result constructors the adapters are built on hold exactly their argument ---
	checkResultCtors(p, r, res, "C17.R6,C01.R8", "C17.ENGINE")
	// --- Any-style adapters (three construction forms) -------------------------------------
	analyzeAnyAdapters(p, r, res, vi, ei)
	// --- delegators: positional passthrough (C01.R6) ---------------------------------------
	analyzeDelegators(p, r, res)
	// --- method-set table (C01.R7) -----------------------------------------------------------
	analyzeMethodSets(p, r, res)
	return res
}

// findWrappers returns, for an adapter constructor, the closures stored into function-typed fields of CustomNode.
func findWrappers(r *Roles, fn *ssa.Function) map[string]*ssa.Function {
	out := map[string]*ssa.Function{}
	var visit func(f *ssa.Function)
	visit = func(f *ssa.Function) {
		for _, b := range f.Blocks {
			for _, ins := range b.Instrs {
				if st, ok := ins.(*ssa.Store); ok {
					if fa, ok := st.Addr.(*ssa.FieldAddr); ok && isNamedPtr(fa.X.Type(), r.CustomNode) {
						if mc, ok := st.Val.(*ssa.MakeClosure); ok {
							out[fieldName(fa.X.Type(), fa.Field)] = mc.Fn.(*ssa.Function)
						}
					}
				}
			}
		}
		for _, a := range f.AnonFuncs {
			visit(a)
		}
	}
	visit(fn)
	// the setter may delegate to the option form: follow static in-package callees one level
	if len(out) == 0 {
		for _, b := range fn.Blocks {
			for _, ins := range b.Instrs {
				if call, ok := ins.(ssa.CallInstruction); ok {
					if cal := call.Common().StaticCallee(); cal != nil && cal.Pkg == fn.Pkg && cal != fn {
						visit(cal)
					}
				}
			}
		}
	}
	return out
}

func analyzeAnyAdapters(p *load.Program, r *Roles, res *UnitResult, vi, ei int) {
	col := res.Col
	type form struct {
		label string
		fn    *ssa.Function
	}
	inv := resultInvariant(p, r, vi, ei)
	for _, kind := range []string{"Prep", "Exec", "Post"} {
		name := "With" + kind + "FuncAny"
		var forms []form
		if f := p.Func(name); f != nil {
			forms = append(forms, form{"option " + name, f})
		}
		if f := p.DeclaredMethod("NodeBuilder", name); f != nil {
			forms = append(forms, form{"NodeBuilder." + name, f})
		}
		if f := p.DeclaredMethod("BatchNodeBuilder", name); f != nil {
			forms = append(forms, form{"BatchNodeBuilder." + name, f})
		}
		field := "CustomNode." + strings.ToLower(kind[:1]) + kind[1:] + "Func"
		for _, fm := range forms {
			ws := findWrappers(r, fm.fn)
			w := ws[field]
			if w == nil {
				// the closure may come out of a helper: ask the engine what the setter stores
				w = installedClosures(p, r, res, fm.fn)[field]
			}
			con := fm.label + ":wrapper"
			if w == nil {
				col.Check("C17.R3,C17.R4", con, false, p.Position(fm.fn.Pos()), "no wrapper closure stored into "+field+" found", nil)
				continue
			}
			free := make([]*eng.Term, len(w.FreeVars))
			for i, fv := range w.FreeVars {
				free[i] = eng.Free(i, fv.Name())
			}
			paths := exploreAdapter(p, r, res, w, Mode{}, free, nil, nil, "C17.ENGINE")
			calls := 0
			for _, pth := range paths {
				c := &eng.Ctx{E: pth.e, St: pth.st}
				var uc *userCall
				for i := range pth.calls {
					if strings.HasPrefix(pth.calls[i].class, "dyn:") {
						uc = &pth.calls[i]
					}
				}
				if uc == nil {
					col.CheckAt("C17.R3,C17.R4", con, false, pth.pos, "a path of the wrapper does not call the user's function", nil)
					continue
				}
				calls++
				// arguments: ctx, then (shared | Value(prep)), then ...
				prm := func(i int) *eng.Term { return eng.Param(i, w.Params[i].Name()) }
				valueOf := func(P *eng.Term) (*eng.Term, bool) {
					// Value(): nil for an error result, else the value field
					switch c.Eval(eng.Bin("==", eng.Field(P, ei), eng.Nil())) {
					case eng.TriTrue:
						return eng.Field(P, vi), true
					case eng.TriFalse:
						return eng.Nil(), true
					}
					if inv {
						// no Result holds both an error and a value: the value field IS Value()
						return eng.Field(P, vi), true
					}
					return nil, false
				}
				okArgs, why := true, ""
				expect := func(i int, want *eng.Term, what string) {
					if i < len(uc.args) && want.K == eng.KNil && inv {
						// an error Result holds no value (constructor invariant): its value field is nil too
						for pi := 1; pi < len(w.Params); pi++ {
							if uc.args[i] == eng.Field(prm(pi), vi) && c.Eval(eng.Bin("==", eng.Field(prm(pi), ei), eng.Nil())) == eng.TriFalse {
								return
							}
						}
					}
					if i >= len(uc.args) || uc.args[i] != want {
						got := "<missing>"
						if i < len(uc.args) {
							got = uc.args[i].Pretty()
						}
						okArgs, why = false, fmt.Sprintf("argument %d must be %s, got %s", i, what, got)
					}
				}
				switch kind {
				case "Prep":
					expect(0, prm(0), "the context")
					expect(1, prm(1), "the store")
				case "Exec":
					expect(0, prm(0), "the context")
					if v, ok := valueOf(prm(1)); ok {
						expect(1, v, "the value of the prep Result (not the Result itself)")
					} else {
						okArgs, why = false, "the wrapper does not take the prep Result's value via Value()"
					}
				case "Post":
					expect(0, prm(0), "the context")
					expect(1, prm(1), "the store")
					if v, ok := valueOf(prm(2)); ok {
						expect(2, v, "the value of the prep Result")
					} else {
						okArgs, why = false, "prep value not taken via Value()"
					}
					if v, ok := valueOf(prm(3)); ok {
						expect(3, v, "the value of the exec Result")
					} else {
						okArgs, why = false, "exec value not taken via Value()"
					}
				}
				col.CheckAt("C17.R3,C17.R4", con, okArgs, uc.pos, "Any-style "+kind+" adapter: "+why, nil)
				// results
				if len(pth.rets) != 2 || len(uc.res) != 2 {
					col.CheckAt("C17.R3,C17.R4", con, false, pth.pos, "unexpected arity", nil)
					continue
				}
				switch kind {
				case "Post":
					ok := pth.rets[0] == uc.res[0] && pth.rets[1] == uc.res[1]
					col.CheckAt("C17.R3,C17.R4,C04.R6", con, ok, pth.pos, "the post adapter must return the user's action and error unchanged, got ("+prettyArgs(pth.rets)+")", nil)
				default:
					errRule := "C17.R3,C17.R4,C04.R6"
					if kind == "Exec" {
						errRule += ",C02.R3,C09.R7" // a failed attempt has to look failed: retries, fallback and stop mode key on it
					}
					switch c.IsNil(uc.res[1]) {
					case eng.TriFalse:
						col.CheckAt(errRule, con, pth.rets[1] == uc.res[1], pth.pos, "the adapter must return the user's error itself, got "+pth.rets[1].Pretty(), nil)
					case eng.TriTrue:
						got := pth.rets[0]
						isNil := func(t *eng.Term) bool { return t.K == eng.KNil || c.IsNil(t) == eng.TriTrue }
						ok := got.K == eng.KStruct && got.A[vi] == uc.res[0] && isNil(got.A[ei]) && isNil(pth.rets[1])
						col.CheckAt("C17.R3,C17.R4", con, ok, pth.pos, "the adapter must wrap the user's value exactly once, got "+got.Pretty(), nil)
					default:
						col.CheckAt(errRule, con, false, pth.pos, "the adapter returns without testing the user's error", nil)
					}
				}
			}
			col.CheckAt("C17.R3,C17.R4", con+":reached", calls > 0, "", "wrapper never calls the user's function", nil)
		}
	}
}

// fieldCalledSomewhere: some function of the package other than a phase method reads field i of
// the struct type (a hook the runner consults rather than a phase method; what it does with the
// value is the business of the rules of that code).
func fieldCalledSomewhere(p *load.Program, named *types.Named, i int) bool {
	for _, fn := range p.AllFunctions() {
		for _, b := range fn.Blocks {
			for _, ins := range b.Instrs {
				switch x := ins.(type) {
				case *ssa.UnOp:
					if fa, ok := x.X.(*ssa.FieldAddr); ok && fa.Field == i {
						if pt, ok := fa.X.Type().Underlying().(*types.Pointer); ok && types.Identical(pt.Elem(), named) {
							return true
						}
					}
				case *ssa.Field:
					if x.Field == i && types.Identical(x.X.Type(), named) {
						return true
					}
				}
			}
		}
	}
	return false
}

// paramsIn returns the indexes of root parameters mentioned in t.
func paramsIn(t *eng.Term) map[int]bool {
	out := map[int]bool{}
	t.Walk(func(n *eng.Term) {
		if n.K == eng.KParam {
			out[int(n.I)] = true
		}
	})
	return out
}

// checkNoInterfaceCompare: the lifecycle code (Run, the batch runners, the flow walk, the phase
// methods of the library's node types, and what they call) never compares two interface values
// with == or != unless one side is the nil constant: for a dynamic type that is not comparable
// (an error that is a slice or a map, a payload) such a comparison panics, and a run that panics
// returns neither an action nor an error and passes no error on.
func checkNoInterfaceCompare(p *load.Program, r *Roles, res *UnitResult) {
	col := res.Col
	seen := map[*ssa.Function]bool{}
	var roots []*ssa.Function
	if r.FnRun != nil {
		roots = append(roots, r.FnRun)
	}
	for _, tn := range []string{"Flow", "CustomNode", "BatchNode", "NodeBuilder", "BatchNodeBuilder", "BaseNode"} {
		for _, m := range []string{"Prep", "Exec", "Post", "ExecFallback", "Run"} {
			if f := p.DeclaredMethod(tn, m); f != nil {
				roots = append(roots, f)
			}
		}
	}
	n := 0
	var visit func(fn *ssa.Function)
	visit = func(fn *ssa.Function) {
		if fn == nil || seen[fn] || len(fn.Blocks) == 0 || (fn.Pkg != p.SSA && fn.Parent() == nil) {
			return
		}
		seen[fn] = true
		n++
		for _, a := range fn.AnonFuncs {
			visit(a)
		}
		for _, b := range fn.Blocks {
			for _, ins := range b.Instrs {
				switch x := ins.(type) {
				case *ssa.BinOp:
					if (x.Op == token.EQL || x.Op == token.NEQ) && !isNilConst(x.X) && !isNilConst(x.Y) {
						_, ix := x.X.Type().Underlying().(*types.Interface)
						_, iy := x.Y.Type().Underlying().(*types.Interface)
						if ix && iy && !isNamed(x.X.Type(), "reflect", "Type") {
							col.Check("C01.R9,C04.R7", funcLabel(fn)+":interface-compare", false, p.Position(x.Pos()), "two interface values are compared with "+x.Op.String()+": for a dynamic type that is not comparable (an error or payload that is a slice, a map, a func) this panics - the run then returns neither an action nor an error", nil)
						}
					}
				case ssa.CallInstruction:
					if g := x.Common().StaticCallee(); g != nil && g.Pkg == p.SSA {
						visit(g)
					}
				}
			}
		}
	}
	for _, f := range roots {
		visit(f)
	}
	col.Check("C01.R9,C04.R7", "lifecycle:interface-compare", n > 0, p.Position(0), "no lifecycle function found to scan", nil)
}

func analyzeDelegators(p *load.Program, r *Roles, res *UnitResult) {
	checkNoInterfaceCompare(p, r, res)
	col := res.Col
	phase := []string{"Prep", "Exec", "Post", "ExecFallback", "GetMaxRetries", "GetWait", "GetBatchConcurrency", "GetBatchErrorHandling"}
	// inner methods are summarised as deterministic calls
	pure := map[*ssa.Function]string{}
	for _, tn := range []string{"CustomNode", "BatchNode", "BaseNode"} {
		for _, m := range phase {
			if f := p.DeclaredMethod(tn, m); f != nil {
				pure[f] = tn + "." + m
			}
		}
	}
	n := 0
	usedFnFields := map[string]map[int]bool{}
	for _, tn := range []string{"NodeBuilder", "BatchNodeBuilder", "BatchNode", "CustomNode"} {
		for _, m := range phase {
			fn := p.DeclaredMethod(tn, m)
			if fn == nil {
				continue
			}
			n++
			pf := map[*ssa.Function]string{}
			for k, v := range pure {
				if k != fn {
					pf[k] = v
				}
			}
			label := tn + "." + m + ":delegation"
			paths := exploreAdapter(p, r, res, fn, Mode{PureFns: pf}, nil, nil, nil, "C01.ENGINE")
			var configured []*eng.Term
			for _, pth := range paths {
				for _, uc := range pth.calls {
					if uc.fnTerm != nil && (strings.HasPrefix(uc.class, "field:") || strings.HasPrefix(uc.class, "dyn:")) {
						if ft := uc.fnTerm; ft.K == eng.KLoad && ft.A[0].K == eng.KFieldAddr && ft.A[0].A[0].K == eng.KParam && ft.A[0].A[0].I == 0 {
							if usedFnFields[tn] == nil {
								usedFnFields[tn] = map[int]bool{}
							}
							usedFnFields[tn][int(ft.A[0].I)] = true
						}
						dup := false
						for _, f := range configured {
							dup = dup || f == uc.fnTerm
						}
						if !dup {
							configured = append(configured, uc.fnTerm)
						}
					}
				}
			}
			for _, pth := range paths {
				for _, uc := range pth.calls {
					// positional passthrough: argument j mentions only parameter j
					off := 0
					if strings.HasPrefix(uc.class, "field:") || strings.HasPrefix(uc.class, "dyn:") {
						off = 1 // user functions have no receiver slot
					}
					ok, why := true, ""
					for j, a := range uc.args {
						want := j + off
						for pi := range paramsIn(a) {
							if pi != want && !(pi == 0 && j == 0 && off == 0) {
								ok, why = false, fmt.Sprintf("argument %d of %s is built from parameter %d of %s", j, uc.class, pi, tn+"."+m)
							}
						}
						if want < len(fn.Params) && want > 0 && !paramsIn(a)[want] {
							ok, why = false, fmt.Sprintf("argument %d of %s does not come from parameter %d of %s", j, uc.class, want, tn+"."+m)
						}
					}
					col.CheckAt("C01.R6", label, ok, uc.pos, "a phase method must forward its parameters positionally: "+why, nil)
					// results come back in order
					okR, whyR := true, ""
					if len(pth.rets) == len(uc.res) {
						for k, rv := range pth.rets {
							for k2, cr := range uc.res {
								if k2 != k && rv.Contains(cr) {
									okR, whyR = false, fmt.Sprintf("result %d is built from the callee's result %d", k, k2)
								}
							}
						}
					}
					col.CheckAt("C01.R6", label, okR, pth.pos, "a phase method must return its callee's results in order: "+whyR, nil)
					// delegation to another library phase method is transparent: the callee's
					// results come back untouched (an error-state Result, a nil, a slice all
					// keep their identity; C17.R5)
					if strings.HasPrefix(uc.class, "sum:") && len(pth.calls) == 1 && !pth.panic && len(pth.rets) == len(uc.res) {
						same, whyS := true, ""
						for k := range pth.rets {
							if pth.rets[k] != uc.res[k] {
								same, whyS = false, fmt.Sprintf("result %d is %s, the callee returned %s", k, pth.rets[k].Pretty(), uc.res[k].Pretty())
							}
						}
						col.CheckAt("C17.R5,C01.R6", tn+"."+m+":transparent", same, pth.pos, "a method that delegates to the embedded node's "+strings.TrimPrefix(uc.class, "sum:")+" must return that method's results unchanged: "+whyS, nil)
					}
				}
				// a function field is called only where it is known to be set: a node built without
				// that function gets the default behaviour, not a nil-function call
				for _, uc := range pth.calls {
					if uc.fnTerm != nil && (strings.HasPrefix(uc.class, "field:") || strings.HasPrefix(uc.class, "dyn:")) {
						set := pth.e.Eval(pth.st.Facts(), eng.Bin("!=", uc.fnTerm, eng.Nil())) == eng.TriTrue
						col.CheckAt("C01.R6,C19.R8", tn+"."+m+":calls-set-function", set, uc.pos, "the method calls "+uc.fnTerm.Pretty()+" on a path where it is not known to be set: a node built without that function would panic instead of behaving as the default", nil)
					}
				}
				// user code runs with no lock of the node held: a callback under the node's lock blocks
				// every configuration read of the running batch as soon as a writer queues up
				for _, uc := range pth.calls {
					if strings.HasPrefix(uc.class, "field:") || strings.HasPrefix(uc.class, "dyn:") || strings.HasPrefix(uc.class, "sum:") {
						col.CheckAt("C08.R8,C01.R6", tn+"."+m+":calls-outside-lock", !uc.locked, uc.pos, "the method calls "+uc.class+" while holding a lock: with the node's lock held across user code, a pending configuration write blocks the other items' executions (the configured concurrency is not usable) and a callback that reads the node's settings can deadlock", nil)
					}
				}
				// a phase method does its work exactly once: the configured function, or the
				// embedded default - never neither (an input silently passed over) and never twice
				if !pth.panic && (m == "Prep" || m == "Exec" || m == "Post" || m == "ExecFallback") {
					okOnce, whyOnce := len(pth.calls) <= 1, fmt.Sprintf("%d calls on one path", len(pth.calls))
					// where a configured function is known to be set, it is the one that is called
					// (a path without any call is fine only as the inline default)
					for _, f := range configured {
						called := false
						for _, uc := range pth.calls {
							called = called || uc.fnTerm == f
						}
						if !called && pth.e.Eval(pth.st.Facts(), eng.Bin("==", f, eng.Nil())) != eng.TriTrue {
							okOnce, whyOnce = false, "the path returns without calling "+f.Pretty()+" although that function is not known to be unset on it (the decision to skip the user's function is taken on something else)"
						}
					}
					ruleOnce := "C01.R6,C19.R8" // ... and the function configured last is the one that runs, whatever form set it
					switch m {
					case "Exec":
						ruleOnce += ",C06.R8,C07.R7" // every item is processed by the user's function
					case "ExecFallback":
						ruleOnce += ",C02.R4,C07.R7" // the fallback a node configured is the one that is consulted
					}
					col.CheckAt(ruleOnce, tn+"."+m+":calls-once", okOnce, pth.pos, fmt.Sprintf("a phase method does its work exactly once per call - the configured function or the default, never neither (an input silently passed over) and never twice: in %s.%s %s", tn, m, whyOnce), nil)
				}
				// a configuration getter declared on a wrapper type answers with the embedded node's
				// getter of the same name, unchanged: the run reads budget, wait, concurrency and mode
				// through whatever getter the node's dynamic type exposes
				if !pth.panic && strings.HasPrefix(m, "Get") {
					okG, whyG := false, fmt.Sprintf("%d calls on the path", len(pth.calls))
					if len(pth.calls) == 1 {
						uc := pth.calls[0]
						switch {
						case !strings.HasPrefix(uc.class, "sum:") || !strings.HasSuffix(uc.class, "."+m):
							whyG = "it calls " + uc.class
						case len(pth.rets) != 1 || len(uc.res) != 1 || pth.rets[0] != uc.res[0]:
							whyG = "it returns " + prettyArgs(pth.rets) + ", the embedded getter returned " + prettyArgs(uc.res)
						default:
							okG = true
						}
					}
					col.CheckAt("C19.R5"+map[string]string{"GetMaxRetries": ",C02.R1", "GetWait": ",C20.R1", "GetBatchConcurrency": ",C08.R6", "GetBatchErrorHandling": ",C07.R6,C09.R5"}[m], tn+"."+m+":getter-delegates", okG, pth.pos, "a configuration getter of a wrapper type must return what the embedded node's "+m+" returns: "+whyG, nil)
				}
				// an adapter may report success only after it has seen the callee's error to be nil
				for _, uc := range pth.calls {
					if len(uc.res) >= 1 && len(pth.rets) >= 1 && (strings.HasPrefix(uc.class, "field:") || strings.HasPrefix(uc.class, "dyn:") || strings.HasPrefix(uc.class, "sum:")) {
						errT := uc.res[len(uc.res)-1]
						got := pth.rets[len(pth.rets)-1]
						isErrTyped := false
						if f := fn.Signature.Results(); f.Len() > 0 {
							isErrTyped = f.At(f.Len()-1).Type().String() == "error"
						}
						if isErrTyped && got.K == eng.KNil {
							okSeen := pth.e.Eval(pth.st.Facts(), eng.Bin("==", errT, eng.Nil())) == eng.TriTrue
							col.CheckAt("C04.R6,C02.R3"+map[bool]string{true: ",C17.R2"}[tn == "CustomNode" && m == "Exec"], tn+"."+m+":error-checked", okSeen, pth.pos, "the method reports success without having tested the error its callee returned (a failed attempt would count as a success: no retry, no fallback)", nil)
						}
					}
				}
				// error transparency of adapters: a non-nil error from the callee is returned as is (C04.R6)
				for _, uc := range pth.calls {
					if len(uc.res) >= 1 && len(pth.rets) >= 1 {
						errT := uc.res[len(uc.res)-1]
						if pth.e.Eval(pth.st.Facts(), eng.Bin("!=", errT, eng.Nil())) == eng.TriTrue {
							got := pth.rets[len(pth.rets)-1]
							col.CheckAt("C04.R6", tn+"."+m+":error-passthrough", got == errT, pth.pos, "the callee's error must be returned unchanged, got "+got.Pretty(), nil)
						}
					}
				}
			}
			col.CheckAt("C01.R6", label, true, "", "", nil)
		}
	}
	// every function-typed field a node type carries is used by one of its phase methods
	for _, tn := range []string{"CustomNode", "BatchNode"} {
		named := p.Named(tn)
		if named == nil {
			continue
		}
		st, ok := named.Underlying().(*types.Struct)
		if !ok {
			continue
		}
		for i := 0; i < st.NumFields(); i++ {
			if _, isFn := st.Field(i).Type().Underlying().(*types.Signature); !isFn {
				continue
			}
			used := usedFnFields[tn][i] || fieldCalledSomewhere(p, named, i)
			col.Check("C01.R6,C19.R8", tn+"."+st.Field(i).Name()+":used", used, p.Position(st.Field(i).Pos()), "no phase method of "+tn+" calls the function stored in field "+st.Field(i).Name()+": configuring it has no effect", nil)
		}
	}
	col.Check("C01.R6", "delegators:count", n >= 8, p.Position(0), fmt.Sprintf("only %d phase methods of library node types found", n), nil)
	// BaseNode defaults are transparent (C04.R6): ExecFallback returns its error parameter
	if fn := p.DeclaredMethod("BaseNode", "ExecFallback"); fn != nil && len(fn.Params) == 3 {
		for _, pth := range exploreAdapter(p, r, res, fn, Mode{}, nil, nil, nil, "C04.ENGINE") {
			ok := len(pth.rets) == 2 && pth.rets[1] == eng.Param(2, fn.Params[2].Name())
			col.CheckAt("C04.R6", "BaseNode.ExecFallback:default", ok, pth.pos, "the default fallback must return the very error it was given", nil)
		}
	}
}

// interfaceShapes: the three public node interfaces are part of the contract the lifecycle
// assertions rely on (a node exposing GetMaxRetries/GetWait IS retryable; one with ExecFallback
// HAS a fallback): their method sets are frozen from the documentation.
func interfaceShapes(p *load.Program, r *Roles, col *Col) {
	q := func(pk *types.Package) string { return pk.Name() }
	want := map[string]map[string]string{
		"Node": {
			"Prep": "func(ctx context.Context, shared *flyt.SharedStore) (any, error)",
			"Exec": "func(ctx context.Context, prepResult any) (any, error)",
			"Post": "func(ctx context.Context, shared *flyt.SharedStore, prepResult any, execResult any) (flyt.Action, error)",
		},
		"RetryableNode": {
			"Prep":          "func(ctx context.Context, shared *flyt.SharedStore) (any, error)",
			"Exec":          "func(ctx context.Context, prepResult any) (any, error)",
			"Post":          "func(ctx context.Context, shared *flyt.SharedStore, prepResult any, execResult any) (flyt.Action, error)",
			"GetMaxRetries": "func() int",
			"GetWait":       "func() time.Duration",
		},
		"FallbackNode": {
			"ExecFallback": "func(prepResult any, err error) (any, error)",
		},
	}
	for name, methods := range want {
		n := p.Named(name)
		if n == nil {
			col.Unproven("C01.R7,C02.R1", name+":interface-shape", p.Position(0), "interface "+name+" not found", nil)
			continue
		}
		it, ok := n.Underlying().(*types.Interface)
		if !ok {
			col.Check("C01.R7,C02.R1", name+":interface-shape", false, p.Position(n.Obj().Pos()), name+" is no longer an interface", nil)
			continue
		}
		got := map[string]string{}
		for i := 0; i < it.NumMethods(); i++ {
			m := it.Method(i)
			got[m.Name()] = types.TypeString(m.Type(), q)
		}
		okAll, why := true, ""
		for mn, sig := range methods {
			if got[mn] != sig {
				okAll, why = false, fmt.Sprintf("method %s has signature %q, documented %q", mn, got[mn], sig)
			}
		}
		for mn := range got {
			if _, ok := methods[mn]; !ok {
				okAll, why = false, "additional method "+mn+" is required: nodes that only expose the documented methods no longer satisfy the interface, so the lifecycle silently skips their retry/fallback handling"
			}
		}
		col.Check("C01.R7,C02.R1", name+":interface-shape", okAll, p.Position(n.Obj().Pos()), "the public interface "+name+" changed: "+why, nil)
	}
}

func analyzeMethodSets(p *load.Program, r *Roles, res *UnitResult) {
	col := res.Col
	interfaceShapes(p, r, col)
	type row struct {
		typ   *types.Named
		name  string
		ifcs  []*types.Named
		decls map[string][]string // method -> allowed declaring types
	}
	all := []*types.Named{r.Node, r.Retryable, r.Fallback}
	phaseCN := map[string][]string{"Prep": {"CustomNode"}, "Exec": {"CustomNode"}, "Post": {"CustomNode"}, "ExecFallback": {"CustomNode"}, "GetMaxRetries": {"BaseNode"}, "GetWait": {"BaseNode"}}
	rows := []row{
		{r.BaseNode, "BaseNode", all, map[string][]string{"Prep": {"BaseNode"}, "Exec": {"BaseNode"}, "Post": {"BaseNode"}, "ExecFallback": {"BaseNode"}, "GetMaxRetries": {"BaseNode"}, "GetWait": {"BaseNode"}}},
		{r.CustomNode, "CustomNode", all, phaseCN},
		{r.NodeBuilder, "NodeBuilder", all, map[string][]string{"Prep": {"NodeBuilder", "CustomNode"}, "Exec": {"NodeBuilder", "CustomNode"}, "Post": {"NodeBuilder", "CustomNode"}, "ExecFallback": {"NodeBuilder", "CustomNode"}, "GetMaxRetries": {"NodeBuilder", "BaseNode"}, "GetWait": {"NodeBuilder", "BaseNode"}}},
		{r.BatchNode, "BatchNode", all, map[string][]string{"Prep": {"BatchNode"}, "Exec": {"CustomNode"}, "Post": {"BatchNode"}, "ExecFallback": {"CustomNode"}, "GetMaxRetries": {"BaseNode"}, "GetWait": {"BaseNode"}}},
		{r.BatchNodeBuilder, "BatchNodeBuilder", all, map[string][]string{"Prep": {"BatchNodeBuilder", "BatchNode"}, "Exec": {"BatchNodeBuilder", "CustomNode"}, "Post": {"BatchNodeBuilder", "BatchNode"}, "ExecFallback": {"CustomNode"}, "GetMaxRetries": {"BaseNode"}, "GetWait": {"BaseNode"}}},
		{r.Flow, "Flow", all, map[string][]string{"Prep": {"Flow"}, "Exec": {"Flow"}, "Post": {"Flow"}, "ExecFallback": {"BaseNode"}, "GetMaxRetries": {"BaseNode"}, "GetWait": {"BaseNode"}}},
	}
	for _, rw := range rows {
		if rw.typ == nil {
			col.Unproven("C01.R7", rw.name+":method-set", p.Position(0), "type not found", nil)
			continue
		}
		pt := types.NewPointer(rw.typ)
		pos := p.Position(rw.typ.Obj().Pos())
		for _, ifc := range rw.ifcs {
			if ifc == nil {
				continue
			}
			it, _ := ifc.Underlying().(*types.Interface)
			ok := it != nil && types.Implements(pt, it)
			col.Check("C01.R7", rw.name+":implements-"+ifc.Obj().Name(), ok, pos, "*"+rw.name+" no longer implements "+ifc.Obj().Name()+": the lifecycle would skip its retry/fallback handling", nil)
		}
		ms := types.NewMethodSet(pt)
		for m, allowed := range rw.decls {
			sel := ms.Lookup(p.Types, m)
			if sel == nil {
				col.Check("C01.R7", rw.name+":"+m+"-resolution", false, pos, "method "+m+" not in the method set", nil)
				continue
			}
			fobj := sel.Obj().(*types.Func)
			decl := recvName(fobj.Type().(*types.Signature).Recv().Type())
			ok := false
			for _, a := range allowed {
				if a == decl {
					ok = true
				}
			}
			col.Check("C01.R7"+map[string]string{"ExecFallback": ",C02.R4", "GetMaxRetries": ",C02.R1", "GetWait": ",C20.R1", "Exec": ",C02.R3"}[m], rw.name+":"+m+"-resolution", ok, pos, fmt.Sprintf("(*%s).%s resolves to %s.%s (expected one of %v): a phase would silently run a different implementation", rw.name, m, decl, m, allowed), nil)
		}
	}
}

// installedClosures explores a setter form (an option constructor or a builder method)
// and returns the closures it stores into fields, keyed by "Type.field". Helpers that
// build the closure are inlined by the engine, so the result does not depend on where
// the function literal is written.
func installedClosures(p *load.Program, r *Roles, res *UnitResult, fn *ssa.Function) map[string]*ssa.Function {
	out := map[string]*ssa.Function{}
	explore := func(root *ssa.Function, free []*eng.Term) *eng.Engine {
		e := eng.New(eng.Config{Prog: p.Prog, Pkg: p.SSA, Fset: p.Fset, Root: root, RootFree: free, MaxDepth: 8, MaxStates: 20000,
			Classify: r.Classifier(Mode{}), Monitors: []eng.Monitor{storeRecMon{}}, KeepFacts: true})
		e.Run()
		res.Stats.add(e, root)
		return e
	}
	collect := func(e *eng.Engine) {
		for _, rt := range e.Returns {
			ss, _ := rt.State.MonByName(e, "storerec").(storeRecState)
			for _, f := range ss.stores {
				if f.val != nil && f.val.K == eng.KClosure {
					if w, ok := f.val.Aux.(*ssa.Function); ok {
						out[f.field] = w
					}
				}
			}
		}
	}
	e := explore(fn, nil)
	collect(e)
	if len(out) > 0 {
		return out
	}
	// option form: the returned value is (or holds) the setter closure
	for _, rt := range e.Returns {
		if rt.Panic || len(rt.Vals) != 1 {
			continue
		}
		var clo *eng.Term
		v := rt.Vals[0]
		switch {
		case v.K == eng.KClosure:
			clo = v
		case v.K == eng.KBox:
			c := &eng.Ctx{E: e, St: rt.State}
			if obj := c.Mem(v.A[0]); obj.K == eng.KStruct {
				for _, f := range obj.A {
					if f.K == eng.KClosure {
						clo = f
					}
				}
			}
		}
		if clo == nil {
			continue
		}
		cfn, ok := clo.Aux.(*ssa.Function)
		if !ok {
			continue
		}
		free := make([]*eng.Term, len(cfn.FreeVars))
		for k, fv := range cfn.FreeVars {
			free[k] = eng.Free(k, fv.Name())
		}
		collect(explore(cfn, free))
	}
	return out
}

// resultInvariant: no Result is ever built with both a value and an error (every
// construction site in the package sets at most one of the two fields, and no field
// of an existing Result is assigned), so "error set" implies "value nil".
func resultInvariant(p *load.Program, r *Roles, vi, ei int) bool {
	if r.Result == nil {
		return false
	}
	isRes := func(t types.Type) bool {
		pt, ok := t.Underlying().(*types.Pointer)
		return ok && types.Identical(pt.Elem(), r.Result)
	}
	for _, fn := range p.AllFunctions() {
		set := map[ssa.Value][2]bool{}
		for _, b := range fn.Blocks {
			for _, ins := range b.Instrs {
				st, ok := ins.(*ssa.Store)
				if !ok {
					continue
				}
				fa, ok := st.Addr.(*ssa.FieldAddr)
				if !ok || !isRes(fa.X.Type()) {
					continue
				}
				if _, local := fa.X.(*ssa.Alloc); !local {
					return false // a field of an existing Result is assigned
				}
				if c, isC := st.Val.(*ssa.Const); isC && c.IsNil() {
					continue
				}
				cur := set[fa.X]
				if fa.Field == vi {
					cur[0] = true
				}
				if fa.Field == ei {
					cur[1] = true
				}
				set[fa.X] = cur
			}
		}
		for _, v := range set {
			if v[0] && v[1] {
				return false
			}
		}
	}
	return true
}
