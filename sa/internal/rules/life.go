package rules

import (
	"fmt"
	"go/types"
	"strings"
	"sync"

	"flytsa/internal/eng"

	"golang.org/x/tools/go/ssa"
)

// LifeMon is the lifecycle monitor for the root Run: phase order and data
// threading (C01), retry chain discipline and fallback (C02), error
// transparency (C04), context observation (C05/C11), action normalisation
// (C18) and the retry wait (C20). Batch-specific rules live in BatchMon.
type LifeMon struct {
	R   *Roles
	Col *Col
	// parameters of the root (Run): ctx, node, shared
	Ctx, Node, Shared *eng.Term
	execLoops         map[*ssa.BasicBlock]bool
	mu                sync.Mutex
}

type loopRec struct {
	id         string
	iterExecs  int8
	chainExecs int8
	exited     int8 // 0 unknown, 1 left through the IV test, -1 stayed
	fbDone     bool
}

type timerRec struct{ ch, dur *eng.Term }

type lifeState struct {
	nPrep, nPost     int8
	last             string
	lastPos          string
	lastErr, lastVal *eng.Term
	execErr, execVal *eng.Term // results of the latest exec callback (kept across a fallback)
	lateBudget       *eng.Term // a GetMaxRetries result obtained after an attempt of the running exec phase
	budgetTested     bool      // a budget test of a retry loop was evaluated in the running exec phase
	prepVal, prepErr *eng.Term
	nodeTerm         *eng.Term
	emptyBatch       bool
	loops            []loopRec
	execLoop         string
	obs              *eng.Term
	fresh            bool
	cut              bool // the latest observation said "cancelled"
	cutAny           bool // some observation on this path said "cancelled"
	cutInWait        bool // ... and it was the Done case of a retry-wait select
	timers           []timerRec
	done             []*eng.Term
	waited           bool
	waitDur          *eng.Term
	waitTerm         *eng.Term
}

func (s lifeState) Key() string {
	var sb strings.Builder
	fmt.Fprintf(&sb, "%d,%d,%s@%s,%s,%s,%s,%s,%s|", s.nPrep, s.nPost, s.last, s.lastPos, s.lastErr.Key(), s.lastVal.Key(), s.prepVal.Key(), s.prepErr.Key(), s.nodeTerm.Key()+fmt.Sprint(s.emptyBatch))
	for _, l := range s.loops {
		fmt.Fprintf(&sb, "%s:%d,%d,%d,%v;", l.id, l.iterExecs, l.chainExecs, l.exited, l.fbDone)
	}
	fmt.Fprintf(&sb, "|%s|%s,%v,%v,%v%v|", s.execLoop, s.obs.Key(), s.fresh, s.cut, s.cutAny, s.cutInWait)
	for _, t := range s.timers {
		sb.WriteString(t.ch.Key() + "=" + t.dur.Key() + ";")
	}
	for _, d := range s.done {
		sb.WriteString(d.Key() + ";")
	}
	fmt.Fprintf(&sb, "|%v,%s,%s|%s,%s,%s", s.waited, s.waitDur.Key(), s.waitTerm.Key(), s.execErr.Key(), s.execVal.Key(), s.lateBudget.Key()+fmt.Sprint(s.budgetTested))
	return sb.String()
}

func (s lifeState) Terms() []*eng.Term {
	out := []*eng.Term{s.lastErr, s.lastVal, s.prepVal, s.prepErr, s.nodeTerm, s.obs, s.waitDur, s.waitTerm, s.execErr, s.execVal, s.lateBudget}
	for _, t := range s.timers {
		out = append(out, t.ch, t.dur)
	}
	out = append(out, s.done...)
	var r []*eng.Term
	for _, t := range out {
		if t != nil {
			r = append(r, t)
		}
	}
	return r
}

func (s lifeState) Rename(sub func(*eng.Term) *eng.Term) eng.MState {
	m := func(t *eng.Term) *eng.Term {
		if t == nil {
			return nil
		}
		return t.Map(sub)
	}
	n := s
	n.lastErr, n.lastVal, n.prepVal, n.prepErr, n.nodeTerm = m(s.lastErr), m(s.lastVal), m(s.prepVal), m(s.prepErr), m(s.nodeTerm)
	n.execErr, n.execVal, n.lateBudget = m(s.execErr), m(s.execVal), m(s.lateBudget)
	n.obs, n.waitDur, n.waitTerm = m(s.obs), m(s.waitDur), m(s.waitTerm)
	n.loops = append([]loopRec(nil), s.loops...)
	n.timers = nil
	for _, t := range s.timers {
		n.timers = append(n.timers, timerRec{m(t.ch), m(t.dur)})
	}
	n.done = nil
	for _, d := range s.done {
		n.done = append(n.done, m(d))
	}
	return n
}

func (s *lifeState) rec(id string) *loopRec {
	for i := range s.loops {
		if s.loops[i].id == id {
			return &s.loops[i]
		}
	}
	if len(s.loops) >= 6 {
		s.loops = s.loops[1:]
	}
	s.loops = append(s.loops, loopRec{id: id})
	return &s.loops[len(s.loops)-1]
}

// NewLifeMon builds the monitor; exec loops are found statically.
func NewLifeMon(r *Roles, col *Col) *LifeMon {
	m := &LifeMon{R: r, Col: col, execLoops: map[*ssa.BasicBlock]bool{}}
	m.Ctx, m.Node, m.Shared = eng.Param(0, "ctx"), eng.Param(1, "node"), eng.Param(2, "shared")
	if r.FnRun != nil && len(r.FnRun.Params) == 3 {
		m.Ctx = eng.Param(0, r.FnRun.Params[0].Name())
		m.Node = eng.Param(1, r.FnRun.Params[1].Name())
		m.Shared = eng.Param(2, r.FnRun.Params[2].Name())
	}
	return m
}

func (m *LifeMon) Name() string     { return "life" }
func (m *LifeMon) Init() eng.MState { return lifeState{} }

// IsBatch reports whether the path has established that the node is a batch node.
func (m *LifeMon) IsBatch(c *eng.Ctx) bool {
	for _, t := range []*types.Named{m.R.BatchNode, m.R.BatchNodeBuilder} {
		if t != nil && c.Eval(eng.TAOk(m.Node, types.NewPointer(t))) == eng.TriTrue {
			return true
		}
	}
	return false
}

func (m *LifeMon) variant(c *eng.Ctx) string {
	if m.IsBatch(c) {
		return "batch"
	}
	return "single"
}

func (m *LifeMon) construct(c *eng.Ctx, ev *eng.Event) string {
	role := ev.Class
	switch {
	case ev.Kind == "select":
		role = "wait-select"
	case role == "":
		role = ev.Kind
	}
	return m.variant(c) + "|" + funcLabel(ev.Fn) + ":" + role
}

func knownNil(c *eng.Ctx, t *eng.Term) bool {
	return t != nil && c.IsNil(t) == eng.TriTrue
}
func knownNonNil(c *eng.Ctx, t *eng.Term) bool {
	return t != nil && c.IsNil(t) == eng.TriFalse
}

func (m *LifeMon) loopIDOf(c *eng.Ctx, ev *eng.Event) string {
	fi := c.E.InfoOf(ev.Fn)
	if l := fi.LoopOf(ev.Instr.Block()); l != nil {
		return eng.LoopID(ev.FrameCtx, l.Header)
	}
	return "noloop|" + ev.FrameCtx
}

func (m *LifeMon) OnEvent(c *eng.Ctx, ms eng.MState, ev *eng.Event) eng.MState {
	s := ms.(lifeState)
	s.loops = append([]loopRec(nil), s.loops...)
	path := func() []string { return c.St.Path() }
	batch := m.IsBatch(c)
	chk := func(rule string, ok bool, msg string) {
		var p []string
		if !ok {
			p = path()
		}
		m.Col.Check(retag(rule, batch), m.construct(c, ev), ok, ev.Pos, msg, p)
	}
	// any event may reveal that the latest observation said "cancelled"
	if s.obs != nil && !s.cut && knownNonNil(c, s.obs) {
		s.cut, s.cutAny = true, true
	}
	switch ev.Kind {
	case "task-enter":
		s.obs, s.fresh, s.cut, s.waited, s.waitDur = nil, false, false, false, nil
		s.timers, s.done = nil, nil
	case "task-exit":
		chk("C20.R3", !s.waited || s.cut, "a wait follows the last exec attempt of an item (before the task ends)")
		m.checkBudgetConsulted(c, s, ev, batch)
		s = m.endItem(s, "")
	case "loophead":
		r := s.rec(ev.Site)
		if !ev.Taken {
			*r = loopRec{id: ev.Site}
		} else {
			if batch && !m.isExecLoop(c, ev) {
				// end of one item's processing in a batch: nothing of it may influence the next item
				m.Col.Check("C20.R3", m.variant(c)+"|"+funcLabel(ev.Fn)+":item-loop-iteration", !s.waited || s.cut, ev.Pos, "a wait follows the last exec attempt of an item", pathIf(s.waited && !s.cut, c))
				m.checkBudgetConsulted(c, s, ev, batch)
				s = m.endItem(s, ev.Site)
				r = s.rec(ev.Site)
			}
			if m.isExecLoop(c, ev) {
				s.timers, s.done = nil, nil
				m.Col.Check(retag("C02.R2", batch), m.variant(c)+"|"+funcLabel(ev.Fn)+":retry-loop-iteration", r.iterExecs == 1, ev.Pos,
					fmt.Sprintf("a loop iteration that consumes retry budget ran %d exec attempts (want exactly 1)", r.iterExecs), pathIf(r.iterExecs != 1, c))
			}
			r.iterExecs = 0
		}
	case "branch":
		// any test against the node's budget counts as consulting it (the guard in front of a
		// bottom-tested loop is not an exit test of that loop)
		if !s.budgetTested && ev.Cond != nil {
			ev.Cond.Walk(func(n *eng.Term) {
				if n.K == eng.KEv && n.I == 0 && c.E.SiteClass[n.S] == "cb:GetMaxRetries" {
					s.budgetTested = true
				}
			})
		}
		if ifi, ok := ev.Instr.(*ssa.If); ok {
			fi := c.E.InfoOf(ev.Fn)
			if l, _, ok := fi.IVExit(ifi); ok {
				r := s.rec(eng.LoopID(ev.FrameCtx, l.Header))
				if l.Blocks[ev.Succ] {
					r.exited = -1
				} else {
					r.exited = 1
				}
				if m.isExecLoopHeader(c, ev.Fn, l.Header) {
					m.checkBudgetTest(c, s, ev, batch, r.chainExecs > 0 && l.Blocks[ev.Succ])
					s.budgetTested = true
				}
			}
		}
	case "select":
		ti, di := -1, -1
		var dur *eng.Term
		for i, cs := range ev.Cases {
			if cs.Send {
				continue
			}
			for _, t := range s.timers {
				if t.ch == cs.Chan {
					ti, dur = i, t.dur
				}
			}
			for _, d := range s.done {
				if d == cs.Chan {
					di = i
				}
			}
		}
		if ti >= 0 {
			chk("C20.R4", di >= 0, "retry wait does not also wait on ctx.Done(): not interruptible")
			if ev.Chosen == ti {
				s.waited, s.waitDur = true, dur
				if di >= 0 {
					// the timer won: a cancellation that arrived during the wait would have been seen,
					// one that was already there when the wait began may lose against an elapsed
					// timer - so the wait keeps an earlier observation fresh, it does not replace it
					s.fresh = m.fresh(c, s)
					s.obs, s.cut = nil, false
				}
			}
		}
		if di >= 0 && ti < 0 && ev.Chosen < 0 {
			// a non-blocking poll of ctx.Done() that took its default case: Done is not closed, the
			// context is not cancelled at this point - an observation like ctx.Err() == nil
			s.obs, s.fresh, s.cut = nil, true, false
		}
		if di >= 0 && ev.Chosen == di {
			s.obs, s.fresh, s.cut, s.cutAny = nil, false, true, true
			if ti >= 0 {
				s.cutInWait = true // Done won against the retry timer
			}
		}
	case "recv":
		for _, t := range s.timers {
			if t.ch == ev.Addr {
				chk("C20.R4", false, "blocking receive from a timer channel outside a select with ctx.Done(): wait is not interruptible")
				s.waited, s.waitDur = true, t.dur
			}
		}
	case "call":
		switch ev.Class {
		case "ctx.Err":
			chk("C02.R8,C11.R6", ev.Recv == nil || m.Ctx == nil || ev.Recv == m.Ctx, "cancellation is observed on "+prettyT(ev.Recv)+", not on the run's own context: something other than the caller's cancellation can cut attempts short (or the caller's cancellation can be missed)")
			if len(ev.Results) > 0 {
				if s.cutAny && !batch || s.cut {
					// context contract (A2): once done, Err() stays non-nil
					c.E.Assume(c.St.Facts(), eng.Bin("!=", ev.Results[0], eng.Nil()), true)
				}
				wasCut := s.cut
				s.obs, s.fresh, s.cut = ev.Results[0], false, wasCut
			}
		case "ctx.Done":
			chk("C02.R8,C11.R6", ev.Recv == nil || m.Ctx == nil || ev.Recv == m.Ctx, "the wait listens on "+prettyT(ev.Recv)+", not on the run's own context")
			if len(ev.Results) > 0 {
				s.done = appendUniq(s.done, ev.Results[0], 3)
			}
		case "time.After":
			if len(ev.Results) > 0 && len(ev.Args) > 0 {
				s.timers = appendTimer(s.timers, timerRec{ev.Results[0], ev.Args[0]})
			}
		case "time.NewTimer":
			if len(ev.Results) > 0 && len(ev.Args) > 0 {
				s.timers = appendTimer(s.timers, timerRec{eng.Load(eng.FieldAddr(ev.Results[0], 0)), ev.Args[0]})
			}
		case "time.Reset":
			// timer.Reset(d) re-arms an existing timer: its channel fires after d
			if len(ev.Args) >= 2 {
				s.timers = appendTimer(s.timers, timerRec{eng.Load(eng.FieldAddr(ev.Args[0], 0)), ev.Args[1]})
			}
		case "time.Sleep":
			chk("C20.R4", false, "time.Sleep is not interruptible by the context")
			s.waited = true
			if len(ev.Args) > 0 {
				s.waitDur = ev.Args[0]
			}
		case "cb:GetWait":
			if len(ev.Results) > 0 {
				s.waitTerm = ev.Results[0]
				chk("C20.R1,C19.R7", ev.Recv != nil && ev.Recv.Contains(m.Node), "the retry wait is read from "+ev.Recv.Pretty()+", not from the node being run")
			}
		case "cb:GetMaxRetries":
			chk("C02.R1,C19.R7", ev.Recv != nil && ev.Recv.Contains(m.Node), "the retry budget is read from "+ev.Recv.Pretty()+", not from the node being run")
			if s.last == "Exec" && len(ev.Results) > 0 {
				s.lateBudget = ev.Results[0] // read again between attempts: may differ from the budget the phase started with
			}
		case "cb:Prep":
			s = m.onPrep(c, s, ev, batch, chk)
		case "cb:Exec":
			s = m.onExec(c, s, ev, batch, chk)
		case "cb:ExecFallback":
			s = m.onFallback(c, s, ev, batch, chk)
		case "cb:Post":
			s = m.onPost(c, s, ev, batch, chk)
		default:
			// any other user code (an observer hook, a function value of unknown origin) may cancel
			// the context: what was observed before it is stale
			if strings.HasPrefix(ev.Class, "field:") || strings.HasPrefix(ev.Class, "dyn:") || strings.HasPrefix(ev.Class, "invoke:") {
				s.obs, s.fresh = nil, false
			}
		}
	case "return":
		m.onReturn(c, s, ev, batch)
	}
	return s
}

// endItem forgets everything that belongs to one item's processing (batch paths).
func (m *LifeMon) endItem(s lifeState, keepLoop string) lifeState {
	s.obs, s.fresh, s.cut, s.waited, s.waitDur = nil, false, false, false, nil
	s.timers, s.done = nil, nil
	s.last, s.lastErr, s.lastVal, s.lastPos = "Item", nil, nil, ""
	s.lateBudget, s.budgetTested = nil, false
	s.execLoop = ""
	s.waitTerm = nil
	var keep []loopRec
	for _, l := range s.loops {
		if l.id == keepLoop {
			keep = append(keep, l)
		}
	}
	s.loops = keep
	return s
}

// retag adds the batch-level rule names under which the same check counts
// when it is evaluated on a batch path (C07.R3: per-item retry/fallback,
// C11.R2: per-item interruptible wait) and the cross-property aliases.
func retag(rule string, batch bool) string {
	out := rule
	if batch {
		switch {
		case strings.HasPrefix(rule, "C02."):
			out += ",C07.R3"
		case rule == "C20.R4":
			out += ",C11.R2"
		}
	} else if rule == "C20.R4" {
		out += ",C05.R3"
	}
	switch rule {
	case "C01.R2", "C01.R3":
		out += ",C04.R3"
	}
	return out
}

// checkBudgetTest: the value the attempt counter is tested against is the
// node's GetMaxRetries() result, or the constant 1 when the node is known not
// to expose retry settings (C02.R1, dynamic half; the arithmetic of the loop
// is decided statically by AnalyzeRetryLoops).
func (m *LifeMon) checkBudgetTest(c *eng.Ctx, s lifeState, ev *eng.Event, batch bool, continuesAfterAttempt bool) {
	var evs, others []*eng.Term
	consts := map[int64]bool{}
	ev.Cond.Walk(func(n *eng.Term) {
		switch n.K {
		case eng.KEv:
			evs = append(evs, n)
		case eng.KConst:
			if n.IsInt {
				consts[n.I] = true
			}
		case eng.KSym, eng.KBin, eng.KAff, eng.KNot:
		default:
			others = append(others, n)
		}
	})
	con := m.variant(c) + "|" + funcLabel(ev.Fn) + ":budget-test"
	ok, msg := true, ""
	for _, t := range evs {
		if s.lateBudget != nil && t == s.lateBudget {
			ok, msg = false, "the attempt counter is tested against a budget that was read again after an attempt of the same exec phase: the number of attempts is no longer the budget the phase started with"
		}
		if !(t.I == 0 && c.E.SiteClass[t.S] == "cb:GetMaxRetries") {
			ok, msg = false, "the attempt counter is tested against "+t.Pretty()+", which is not the node's GetMaxRetries() value"
		}
	}
	if len(others) > 0 {
		ok, msg = false, "the budget test involves "+others[0].Pretty()+", whose relation to the node's budget is not established"
	}
	if ok && len(evs) == 0 {
		// constant budget: only for nodes without retry settings, and it must be 1
		retryable := c.Eval(eng.TAOk(m.Node, m.R.Retryable))
		if s.nodeTerm != nil {
			retryable = c.Eval(eng.TAOk(s.nodeTerm, m.R.Retryable))
		}
		if retryable != eng.TriFalse {
			ok, msg = false, "a node that exposes retry settings is given a constant budget"
		} else if continuesAfterAttempt {
			ok, msg = false, "a node without retry settings is given more than one attempt (default budget is not 1)"
		}
	}
	m.Col.Check(retag("C02.R1", batch), con, ok, ev.Pos, msg, pathIf(!ok, c))
}

func pathIf(cond bool, c *eng.Ctx) []string {
	if cond {
		return c.St.Path()
	}
	return nil
}

func appendUniq(xs []*eng.Term, x *eng.Term, max int) []*eng.Term {
	for _, y := range xs {
		if y == x {
			return xs
		}
	}
	out := append(append([]*eng.Term(nil), xs...), x)
	if len(out) > max {
		out = out[len(out)-max:]
	}
	return out
}

func appendTimer(xs []timerRec, x timerRec) []timerRec {
	for _, y := range xs {
		if y == x {
			return xs
		}
	}
	out := append(append([]timerRec(nil), xs...), x)
	if len(out) > 3 {
		out = out[len(out)-3:]
	}
	return out
}

func (m *LifeMon) isExecLoop(c *eng.Ctx, ev *eng.Event) bool {
	return m.isExecLoopHeader(c, ev.Fn, ev.Succ)
}

// isExecLoopHeader: the loop with this header directly contains an invoke of the Exec callback.
func (m *LifeMon) isExecLoopHeader(c *eng.Ctx, fn *ssa.Function, h *ssa.BasicBlock) bool {
	m.mu.Lock()
	defer m.mu.Unlock()
	if v, ok := m.execLoops[h]; ok {
		return v
	}
	fi := c.E.InfoOf(fn)
	res := false
	for _, l := range fi.Loops {
		if l.Header != h {
			continue
		}
		for b := range l.Blocks {
			for _, ins := range b.Instrs {
				if call, ok := ins.(*ssa.Call); ok && call.Common().IsInvoke() && m.R.CallbackName(call.Common().Method) == "Exec" {
					res = true
				}
			}
		}
	}
	m.execLoops[h] = res
	return res
}

func (m *LifeMon) fresh(c *eng.Ctx, s lifeState) bool {
	if s.fresh {
		return true
	}
	return s.obs != nil && knownNil(c, s.obs)
}

func (m *LifeMon) onPrep(c *eng.Ctx, s lifeState, ev *eng.Event, batch bool, chk func(string, bool, string)) lifeState {
	chk("C01.R1", s.nPrep == 0 && s.last == "", fmt.Sprintf("prep must be the first callback and run once (preps so far %d, previous callback %q)", s.nPrep, s.last))
	okArgs := len(ev.Args) == 2 && ev.Args[0] == m.Ctx && ev.Args[1] == m.Shared
	chk("C01.R1", okArgs, "prep must receive the run's own context and store, got ("+prettyArgs(ev.Args)+")")
	chk("C01.R1", ev.Recv != nil && ev.Recv.Contains(m.Node), "prep is invoked on "+ev.Recv.Pretty()+", not on the node being run")
	if !batch {
		chk("C05.R1", m.fresh(c, s), "no context observation (ctx.Err()==nil edge) precedes prep: an already-cancelled context would still run user code")
	}
	chk("C20.R2", !s.waited, "a retry wait precedes prep")
	s.nPrep++
	s.last, s.lastVal, s.lastErr = "Prep", ev.Results[0], ev.Results[1]
	s.lastPos = posStr(ev.Pos)
	s.prepVal, s.prepErr = ev.Results[0], ev.Results[1]
	s.nodeTerm = ev.Recv
	s.obs, s.fresh, s.cut, s.waited, s.waitDur = nil, false, false, false, nil
	return s
}

func prettyArgs(a []*eng.Term) string {
	var p []string
	for _, x := range a {
		p = append(p, x.Pretty())
	}
	return strings.Join(p, ", ")
}

func (m *LifeMon) onExec(c *eng.Ctx, s lifeState, ev *eng.Event, batch bool, chk func(string, bool, string)) lifeState {
	id := m.loopIDOf(c, ev)
	r := s.rec(id)
	if r.chainExecs == 0 {
		// first attempt of a chain
		ok := s.nPrep == 1 && knownNil(c, s.prepErr)
		if !batch {
			ok = ok && s.last == "Prep"
		}
		chk("C01.R2", ok, fmt.Sprintf("first exec attempt requires a successful prep immediately before it (preps %d, previous callback %q, prep error known nil: %v)", s.nPrep, s.last, knownNil(c, s.prepErr)))
		chk("C20.R2", !s.waited, "a wait happens before the first exec attempt")
		r.fbDone = false
	} else {
		chk("C02.R3", s.last == "Exec" && knownNonNil(c, s.lastErr), fmt.Sprintf("a further exec attempt is made although the previous attempt is not known to have failed (previous callback %q)", s.last))
		chk("C02.R2", r.iterExecs == 0, "second exec attempt within one loop iteration (consumes one unit of budget for two attempts)")
		// wait between attempts
		waitOK := false
		why := ""
		switch {
		case s.waited:
			waitOK = s.waitTerm != nil && s.waitDur == s.waitTerm
			why = "the wait before a retry lasts " + s.waitDur.Pretty() + ", not the node's GetWait() value " + s.waitTerm.Pretty()
		case s.waitTerm == nil:
			waitOK = false
			why = "retry without consulting GetWait()"
		default:
			waitOK = c.Eval(eng.Bin("<", eng.ConstInt(0), s.waitTerm)) == eng.TriFalse
			why = "a retry attempt starts without waiting although the configured wait is not known to be <= 0"
		}
		chk("C20.R1", waitOK, why)
	}
	if !batch {
		chk("C01.R2", len(ev.Args) == 2 && ev.Args[0] == m.Ctx && ev.Args[1] == s.prepVal && s.prepVal != nil, "exec must receive the context and exactly the value prep returned, got ("+prettyArgs(ev.Args)+")")
	} else {
		chk("C01.R2", len(ev.Args) == 2 && ev.Args[0] == m.Ctx, "exec must receive the run's context, got ("+prettyArgs(ev.Args)+")")
	}
	chk("C01.R2", ev.Recv != nil && s.nodeTerm != nil && sameNode(ev.Recv, s.nodeTerm), "exec is invoked on "+ev.Recv.Pretty()+", not on the node whose prep ran")
	rule := "C05.R1"
	if batch {
		rule = "C11.R1"
	}
	chk(rule, m.fresh(c, s), "no context observation (not-cancelled edge) between the previous user callback and this exec attempt")
	s.last, s.lastVal, s.lastErr = "Exec", ev.Results[0], ev.Results[1]
	s.execVal, s.execErr = ev.Results[0], ev.Results[1]
	s.lastPos = posStr(ev.Pos)
	s.timers, s.done = nil, nil
	r = s.rec(id)
	if r.iterExecs < 2 {
		r.iterExecs++
	}
	if r.chainExecs < 2 {
		r.chainExecs++
	}
	s.execLoop = id
	s.obs, s.fresh, s.cut, s.waited, s.waitDur = nil, false, false, false, nil
	return s
}

// sameNode: the receivers denote the same node object (through interface
// assertions, which keep the dynamic value).
func sameNode(a, b *eng.Term) bool { return a == b }

func (m *LifeMon) onFallback(c *eng.Ctx, s lifeState, ev *eng.Event, batch bool, chk func(string, bool, string)) lifeState {
	r := s.rec(s.execLoop)
	chk("C02.R4", s.last == "Exec" && knownNonNil(c, s.lastErr), fmt.Sprintf("fallback is invoked although the last exec attempt is not known to have failed (previous callback %q)", s.last))
	chk("C02.R4", r.exited == 1, "fallback is invoked while retry budget may remain (the retry loop was not left through its budget test)")
	chk("C02.R4", !r.fbDone, "fallback invoked twice for one exec phase")
	argOK := len(ev.Args) == 2 && ev.Args[1] == s.lastErr
	chk("C02.R4", argOK, "fallback must receive the error of the last attempt, got ("+prettyArgs(ev.Args)+") want error "+s.lastErr.Pretty())
	if !batch {
		chk("C02.R4", len(ev.Args) == 2 && ev.Args[0] == s.prepVal, "fallback must receive the prep value, got ("+prettyArgs(ev.Args)+")")
	}
	chk("C02.R4", ev.Recv != nil && s.nodeTerm != nil && sameNode(ev.Recv, s.nodeTerm), "fallback is invoked on "+ev.Recv.Pretty()+", not on the node being run")
	chk("C20.R3", !s.waited, "a wait follows the last exec attempt (before the fallback)")
	r = s.rec(s.execLoop)
	r.fbDone = true
	s.last, s.lastVal, s.lastErr = "Fb", ev.Results[0], ev.Results[1]
	s.lastPos = posStr(ev.Pos)
	s.obs, s.fresh, s.cut, s.waited, s.waitDur = nil, false, false, false, nil
	return s
}

// checkBudgetConsulted: an exec phase that has run an attempt went through a retry loop's budget
// test (C02.R1): an attempt made outside any such loop gives a node with retry settings a fixed
// single attempt.
func (m *LifeMon) checkBudgetConsulted(c *eng.Ctx, s lifeState, ev *eng.Event, batch bool) {
	if s.last != "Exec" && s.last != "Fb" {
		return
	}
	ok := s.budgetTested
	if !ok {
		node := m.Node
		if s.nodeTerm != nil {
			node = s.nodeTerm
		}
		ok = c.Eval(eng.TAOk(node, m.R.Retryable)) == eng.TriFalse
	}
	m.Col.Check(retag("C02.R1", batch), m.variant(c)+"|"+funcLabel(ev.Fn)+":budget-consulted", ok, ev.Pos, "an exec phase ran an attempt without going through the budget test of a retry loop: a node with retry settings (and its fallback) is given a fixed single attempt", pathIf(!ok, c))
}

func (m *LifeMon) onPost(c *eng.Ctx, s lifeState, ev *eng.Event, batch bool, chk func(string, bool, string)) lifeState {
	// (on a batch path an item's phase normally ends with its loop iteration or task; one that is
	// still open at post ran outside both)
	m.checkBudgetConsulted(c, s, ev, batch)
	chk("C01.R3", s.nPost == 0, "post is invoked a second time in one run")
	if !batch {
		ok := (s.last == "Exec" || s.last == "Fb") && knownNil(c, s.lastErr)
		chk("C01.R3", ok, fmt.Sprintf("post requires that the exec phase just produced a result without error (previous callback %q, its error known nil: %v)", s.last, knownNil(c, s.lastErr)))
		okArgs := len(ev.Args) == 4 && ev.Args[0] == m.Ctx && ev.Args[1] == m.Shared && ev.Args[2] == s.prepVal && ev.Args[3] == s.lastVal
		chk("C01.R3", okArgs, "post must receive (ctx, the run's store, prep's value, the exec phase's result), got ("+prettyArgs(ev.Args)+")")
		chk("C05.R2", !s.cutAny, "post is invoked on a path that has observed the context as cancelled")
		if s.execErr != nil && knownNil(c, s.execErr) && len(ev.Args) == 4 {
			chk("C17.R7", ev.Args[3] == s.execVal, "the latest exec returned without error, so post must receive exactly what it returned (an error Result included), got "+ev.Args[3].Pretty()+" instead of "+s.execVal.Pretty())
		}
	} else {
		chk("C01.R3", len(ev.Args) == 4 && ev.Args[0] == m.Ctx && ev.Args[1] == m.Shared, "post must receive the run's context and store, got ("+prettyArgs(ev.Args)+")")
		chk("C01.R3", s.nPrep == 1 && knownNil(c, s.prepErr), "batch post requires a successful prep")
		if len(ev.Args) == 4 {
			s.emptyBatch = c.Eval(eng.Bin("==", c.E.LenTerm(c.St, unbox(ev.Args[3])), eng.ConstInt(0))) == eng.TriTrue
		}
	}
	chk("C01.R3", ev.Recv != nil && s.nodeTerm != nil && sameNode(ev.Recv, s.nodeTerm), "post is invoked on "+ev.Recv.Pretty()+", not on the node being run")
	chk("C20.R3", !s.waited || s.cut, "a wait follows the last exec attempt (before post)")
	s.nPost++
	s.last, s.lastVal, s.lastErr = "Post", ev.Results[0], ev.Results[1]
	s.lastPos = posStr(ev.Pos)
	s.obs, s.fresh, s.cut, s.waited, s.waitDur = nil, false, false, false, nil
	return s
}

// isCtxErr: the term is the result of a ctx.Err() call that is not known to have been nil on
// this path (an observation made before the cancellation wraps nothing).
func (m *LifeMon) isCtxErr(c *eng.Ctx, t *eng.Term) bool {
	return t.K == eng.KEv && c.E.SiteClass[t.S] == "ctx.Err" && c.IsNil(t) != eng.TriTrue
}

func (m *LifeMon) onReturn(c *eng.Ctx, s lifeState, ev *eng.Event, batch bool) {
	if len(ev.Results) != 2 {
		return
	}
	v := m.variant(c)
	act, err := ev.Results[0], ev.Results[1]
	con := v + "|Run:return"
	ck := func(rule string, ok bool, msg string) {
		m.Col.Check(rule, con, ok, ev.Pos, msg, pathIf(!ok, c))
	}
	ck("C20.R3", !s.waited || s.cut, "a wait follows the last exec attempt (before returning) and the run was not cut short by a cancellation observed after it")
	if batch && s.nPrep == 1 && knownNil(c, s.prepErr) {
		ck("C06.R10,C11.R7", s.nPost == 1, fmt.Sprintf("a batch run whose prep succeeded returns after %d post calls (want exactly one: post sees the settled items once, whatever happened to them)", s.nPost))
	}
	if !batch && (s.last == "Exec" || s.last == "Fb") {
		// the run ends right after the exec phase without post: only legal when that phase is known to have failed
		ck("C01.R4", knownNonNil(c, s.lastErr), "the run returns after an exec attempt/fallback that may have succeeded, without invoking post (post must run whenever the exec phase produced a result without error)")
	}
	switch c.IsNil(err) {
	case eng.TriTrue:
		ok := s.last == "Post" && knownNil(c, s.lastErr)
		ck("C04.R1", ok, fmt.Sprintf("nil error returned although the run did not end with a successful post (last callback %q)", s.last))
		okAct := act == s.lastVal
		if sc, isC := act.StringConst(); isC && s.lastVal != nil {
			// the default action, and only in place of an empty action from post
			okAct = sc == m.R.DefaultActionValue() && sc != "" && c.Eval(eng.Bin("==", s.lastVal, eng.ConstString(""))) == eng.TriTrue
		}
		ck("C01.R5,C03.R10", ok && okAct, "a successful run must return post's action, or the default action exactly when post returned the empty action; got "+act.Pretty())
		ck("C05.R2", batch || !s.cutAny, "success reported on a path that observed the context as cancelled")
		nonEmpty := false
		if sc, isC := act.StringConst(); isC {
			nonEmpty = sc != ""
		} else {
			nonEmpty = c.Eval(eng.Bin("==", act, eng.ConstString(""))) == eng.TriFalse
		}
		role := v
		if batch && s.emptyBatch {
			role = "batch-empty"
		}
		m.Col.CheckAt("C18.R1,C10.R9,C01.R5", role+"|Run:success-return", nonEmpty, "post@"+s.lastPos, "a successful run may return the empty action: "+act.Pretty()+" is not tested against \"\" on this path (return at "+posStr(ev.Pos)+")", pathIf(!nonEmpty, c))
	case eng.TriFalse:
		sc, isC := act.StringConst()
		ck("C01.R5", isC && sc == "", "an error return must carry the empty action, got "+act.Pretty())
		if s.cutAny && !batch {
			found := false
			for _, l := range err.WrapLeaves() {
				if m.isCtxErr(c, l) {
					found = true
				}
			}
			rule := "C05.R2"
			if s.cutInWait {
				rule += ",C20.R7" // the cancellation arrived during the retry wait
			}
			ck(rule, found, "a run cut short by cancellation must return an error wrapping ctx.Err(); got "+err.Pretty())
		} else {
			if batch && s.cutAny && s.nPost == 0 {
				// a batch run that saw the cancellation and ends without post: the error must match the context's
				found := false
				for _, l := range err.WrapLeaves() {
					if m.isCtxErr(c, l) {
						found = true
					}
				}
				ck("C11.R5", found, "a batch run cut short by cancellation without invoking post must return an error that wraps ctx.Err() (errors.Is must match the context's error); got "+err.Pretty())
			}
			cause := s.last != "" && knownNonNil(c, s.lastErr)
			if !cause {
				// maybe a context error before any callback failed (batch paths have no initial check)
				isCtx := false
				for _, l := range err.WrapLeaves() {
					if m.isCtxErr(c, l) {
						isCtx = true
					}
				}
				ck("C04.R2", isCtx, fmt.Sprintf("error return %s without a failing callback or cancellation as its cause (last callback %q)", err.Pretty(), s.last))
				return
			}
			ck("C04.R2", err.Unwraps(s.lastErr), fmt.Sprintf("the returned error %s does not wrap the error of the failing callback (%s of %s)", err.Pretty(), s.lastErr.Pretty(), s.last))
			if s.last == "Exec" {
				r := s.rec(s.execLoop)
				ck("C02.R3", r.exited == 1, "the run fails with an exec error while retry budget may remain (retry loop not left through its budget test)")
				hasFb := c.Eval(eng.TAOk(s.nodeTerm, m.R.Fallback)) != eng.TriFalse
				ck("C02.R4", !hasFb, "exec failed and the node may implement the fallback interface, but the run fails without invoking the fallback")
			}
		}
	default:
		ck("C01.R5", false, "nil-ness of the returned error "+err.Pretty()+" is not established on this path (action "+act.Pretty()+")")
		// if that error can be nil, this is a successful return: the action must then be non-empty
		nonEmpty := false
		if sc, isC := act.StringConst(); isC {
			nonEmpty = sc != ""
		} else {
			nonEmpty = c.Eval(eng.Bin("==", act, eng.ConstString(""))) == eng.TriFalse
		}
		if !nonEmpty {
			m.Col.CheckAt("C18.R1,C10.R9,C01.R5", v+"|Run:success-return", false, posStr(ev.Pos), "the run returns the action "+act.Pretty()+" together with an error that may be nil ("+err.Pretty()+"): a successful run would yield the empty action", pathIf(true, c))
		}
	}
}

func isStringConst(t *eng.Term) bool {
	_, ok := t.StringConst()
	return ok
}

func prettyT(t *eng.Term) string {
	if t == nil {
		return "<nil>"
	}
	return t.Pretty()
}
