package rules

import (
	"fmt"
	"go/types"
	"strings"

	"flytsa/internal/eng"

	"golang.org/x/tools/go/ssa"
)

// BatchMon checks the batch paths of Run: positional results and slot
// coverage (C06, C09.R3, C11.R3), per-item processing (C07), stop mode
// (C09), pool usage (C06.R4, C08.R4/R5).
type BatchMon struct {
	R    *Roles
	Col  *Col
	Case BatchCase
	Life *LifeMon
}

// NewBatchMon creates the monitor (life must be monitor 0 of the engine).
func NewBatchMon(r *Roles, col *Col, bc BatchCase, life *LifeMon) *BatchMon {
	return &BatchMon{R: r, Col: col, Case: bc, Life: life}
}

type covRec struct {
	loop     string
	base     *eng.Term // slice indexed by the stores (nil until the first store)
	c        int64     // store index = IV + c
	startOK  bool
	stored   bool // a store happened in the current iteration
	skipped  bool // an iteration completed before any store was seen
	broken   string
	done     int8 // 1: left through the IV test against len(base); -1: IV test with another bound
	chains   int8 // exec chains started in the current iteration
	submits  int8
	failed   bool   // an error outcome was stored in a completed or current iteration
	resBad   string // first reason why a store is not a valid result-slot value
	fillBad  string // first reason why a store is not a valid "skipped" marker
	normBad  string // first reason why a store is not a normalisation copy
	normSrc  *eng.Term
	iterBad  string    // first per-iteration violation (chains / submits)
	wrapBad  string    // an exec outcome wrapped without the is-it-a-Result test
	cutBad   string    // an item cut short by cancellation whose slot error does not match the context's error
	fbBad    string    // the slot of an item whose fallback ran does not hold the fallback's outcome
	isAppend bool      // the list is built by appending one element per iteration (base = latest append result)
	doneWhy  string    // diagnostic: why the exit test was not accepted
	emptyOf  *eng.Term // the loop ran zero iterations because this slice was empty
	storePos string
}

type batchState struct {
	recs        []covRec
	chainOpen   bool
	inTask      int8
	held        int8
	flagRead    *eng.Term
	flagReadOK  bool // the latest flag read happened while the mutex was held
	flagSet     bool
	pool        *eng.Term
	outstanding bool
	closed      bool
	waited      bool // the batch's pool has been waited on (a barrier): no submission may follow
	poolEvents  bool
	submitted   bool
	conc        *eng.Term // result of the concurrency getter
	execIdx     *eng.Term
	execBases   []*eng.Term
	toSliceArg  *eng.Term
	toSliceRes  *eng.Term
	cutInIter   bool
	taskFailed  bool
}

func (s batchState) Key() string {
	var sb strings.Builder
	for _, r := range s.recs {
		fmt.Fprintf(&sb, "[%s|%s|%d|%v%v%v|%s|%d|%d,%d|%v|%s|%s|%s|%s|%s|%s]", r.loop, r.base.Key(), r.c, r.startOK, r.stored, r.skipped, r.broken, r.done, r.chains, r.submits, r.failed, r.resBad, r.fillBad, r.normBad, r.normSrc.Key()+"/"+r.emptyOf.Key(), r.iterBad+"/"+r.wrapBad+"/"+r.cutBad+"/"+r.fbBad+fmt.Sprint(r.isAppend), r.storePos)
	}
	fmt.Fprintf(&sb, "%v,%d,%d,%s,%v,%v,%s,%v%v%v,%v,%s,%s|", s.chainOpen, s.inTask, s.held, s.flagRead.Key(), s.flagReadOK, s.flagSet, s.pool.Key(), s.outstanding, s.closed, s.waited, s.poolEvents || s.submitted, s.conc.Key(), s.execIdx.Key())
	for _, b := range s.execBases {
		sb.WriteString(b.Key() + ";")
	}
	sb.WriteString(s.toSliceArg.Key() + ">" + s.toSliceRes.Key())
	fmt.Fprintf(&sb, "%v%v%v", s.cutInIter, s.submitted, s.taskFailed)
	return sb.String()
}

func (s batchState) Terms() []*eng.Term {
	var out []*eng.Term
	add := func(t *eng.Term) {
		if t != nil {
			out = append(out, t)
		}
	}
	for _, r := range s.recs {
		add(r.base)
		add(r.normSrc)
		add(r.emptyOf)
	}
	add(s.flagRead)
	add(s.pool)
	add(s.conc)
	add(s.execIdx)
	for _, b := range s.execBases {
		add(b)
	}
	add(s.toSliceArg)
	add(s.toSliceRes)
	return out
}

func (s batchState) Rename(sub func(*eng.Term) *eng.Term) eng.MState {
	m := func(t *eng.Term) *eng.Term {
		if t == nil {
			return nil
		}
		return t.Map(sub)
	}
	n := s
	n.recs = append([]covRec(nil), s.recs...)
	for i := range n.recs {
		n.recs[i].base = m(n.recs[i].base)
		n.recs[i].normSrc = m(n.recs[i].normSrc)
		n.recs[i].emptyOf = m(n.recs[i].emptyOf)
	}
	n.flagRead, n.pool, n.conc, n.execIdx = m(s.flagRead), m(s.pool), m(s.conc), m(s.execIdx)
	n.execBases = nil
	for _, b := range s.execBases {
		n.execBases = append(n.execBases, m(b))
	}
	n.toSliceArg, n.toSliceRes = m(s.toSliceArg), m(s.toSliceRes)
	return n
}

func (s *batchState) cow() { s.recs = append([]covRec(nil), s.recs...) }

func (s *batchState) rec(loop string) *covRec {
	for i := range s.recs {
		if s.recs[i].loop == loop {
			return &s.recs[i]
		}
	}
	return nil
}

func (m *BatchMon) Name() string     { return "batch" }
func (m *BatchMon) Init() eng.MState { return batchState{} }

func unbox(t *eng.Term) *eng.Term {
	for t != nil && t.K == eng.KBox {
		t = t.A[0]
	}
	return t
}

// sliceLen returns the length term of a slice value.
func sliceLen(t *eng.Term) *eng.Term {
	if t == nil {
		return nil
	}
	if t.K == eng.KMake && len(t.A) >= 1 && t.A[0] != nil {
		return t.A[0]
	}
	return eng.Len(t)
}

// splitBase returns the root slice of a (possibly re-sliced) base and the low offset.
func splitBase(b *eng.Term) (root, lo *eng.Term, open bool) {
	if b.K == eng.KSliceOf {
		return b.A[0], b.A[1], b.A[2] == nil
	}
	return b, nil, true
}

func (m *BatchMon) isResult(t types.Type) bool {
	return m.R.Result != nil && types.Identical(t, m.R.Result)
}

// errOf classifies a Result value: (isErrResult, errTerm, valueTerm).
func errOf(c *eng.Ctx, v *eng.Term) (isErr bool, errT, valT *eng.Term, known bool) {
	if v.K == eng.KStruct && len(v.A) == 2 {
		valT, errT = v.A[0], v.A[1]
		switch c.IsNil(errT) {
		case eng.TriFalse:
			return true, errT, valT, true
		case eng.TriTrue:
			return false, errT, valT, true
		}
		return false, errT, valT, false
	}
	return false, nil, nil, false
}

func wrapsCtxErr(c *eng.Ctx, e *eng.Term) bool {
	for _, l := range e.WrapLeaves() {
		if l.K == eng.KEv && c.E.SiteClass[l.S] == "ctx.Err" {
			return true
		}
	}
	return false
}

func isFreshErr(e *eng.Term) bool {
	ls := e.WrapLeaves()
	if len(ls) == 0 {
		return false
	}
	for _, l := range ls {
		if l.K != eng.KFresh {
			return false
		}
	}
	return true
}

func (m *BatchMon) OnEvent(c *eng.Ctx, ms eng.MState, ev *eng.Event) eng.MState {
	if !m.Life.IsBatch(c) {
		return ms
	}
	s := ms.(batchState)
	life, _ := c.Mon(0).(lifeState)
	con := func(role string) string { return "batch|" + funcLabel(ev.Fn) + ":" + role }
	chk := func(rule, role string, ok bool, msg string) {
		m.Col.Check(rule, con(role), ok, ev.Pos, msg, pathIf(!ok, c))
	}
	if life.cut {
		s.cutInIter = true
	}
	switch ev.Kind {
	case "task-enter":
		s.inTask++
		s.flagRead, s.flagReadOK, s.flagSet = nil, false, false
		s.chainOpen, s.taskFailed = false, false
	case "task-exit":
		s.inTask--
		chk("C09.R2,C11.R4", "task-exit", s.held == 0, "a batch task can return while still holding the mutex: the remaining tasks would block forever")
		if m.Case.Stop && m.Case.Conc {
			if s.taskFailed {
				chk("C09.R2", "task-exit", s.flagSet, "in stop mode a task whose item failed must set the stop flag before it returns")
			}
		}
	case "loophead":
		s.cow()
		r := s.rec(ev.Site)
		if !ev.Taken {
			if r == nil {
				if len(s.recs) >= 8 {
					s.recs = s.recs[1:]
				}
				s.recs = append(s.recs, covRec{loop: ev.Site})
			} else {
				*r = covRec{loop: ev.Site}
			}
			if m.Life.isExecLoop(c, ev) {
				s.chainOpen = false
			}
		} else if r != nil {
			if r.base != nil {
				if !r.stored && r.broken == "" {
					r.broken = "an iteration completed without storing its slot (" + posStr(ev.Pos) + ")"
				}
				m.iterationEnd(c, &s, r, life, ev)
			} else {
				r.skipped = true
			}
			r.stored, r.chains, r.submits = false, 0, 0
			s.cutInIter = false
			if !m.Life.isExecLoop(c, ev) {
				// item boundary: forget per-item details and records of inner loops
				s.execIdx, s.flagRead, s.flagReadOK, s.flagSet, s.chainOpen = nil, nil, false, false, false
				var keep []covRec
				for _, x := range s.recs {
					isFill := (x.base != nil && x.base.K == eng.KSliceOf) || (x.emptyOf != nil && x.emptyOf.K == eng.KSliceOf)
					if isFill && x.loop != ev.Site {
						// slots beyond the current item were marked, yet the item loop goes on: later iterations overwrite / contradict the marks
						if x.base != nil {
							chk("C06.R2,C09.R3", "fill-then-continue", false, "the remaining slots were marked as skipped but the item loop continues")
						}
						continue
					}
					if x.base != nil || x.emptyOf != nil || x.loop == ev.Site {
						keep = append(keep, x)
					}
				}
				s.recs = keep
			}
		}
	case "branch":
		if sl := guardedEmptySlice(ev); sl != nil && sl.K == eng.KSliceOf {
			// an explicit "nothing left" guard in front of a fill loop counts like the loop's zero-trip exit
			s.cow()
			id := "guard|" + ev.FrameCtx + "|" + posStr(ev.Pos)
			if r := s.rec(id); r != nil {
				*r = covRec{loop: id, emptyOf: sl}
			} else {
				if len(s.recs) >= 8 {
					s.recs = s.recs[1:]
				}
				s.recs = append(s.recs, covRec{loop: id, emptyOf: sl})
			}
		}
		if ifi, ok := ev.Instr.(*ssa.If); ok {
			fi := c.E.InfoOf(ev.Fn)
			if l, _, ok := fi.IVExit(ifi); ok && !l.Blocks[ev.Succ] {
				s.cow()
				if r := s.rec(eng.LoopID(ev.FrameCtx, l.Header)); r != nil {
					if r.base != nil {
						r.done = m.exitMatches(c, r, ev)
						if r.done != 1 {
							r.doneWhy += " (exit test " + ev.Cond.Pretty() + " at " + posStr(ev.Pos) + ")"
						}
					} else if !r.skipped {
						r.emptyOf = zeroTripSlice(ev)
					}
				}
			}
		}
	case "store":
		s = m.onStore(c, s, life, ev, chk)
	case "load":
		if ev.Volatile {
			chk("C09.R2", "stop-flag-read", s.held > 0, "the shared stop flag is read without holding the mutex")
			if len(ev.Results) > 0 {
				s.flagRead, s.flagReadOK = ev.Results[0], s.held > 0
			}
		}
	case "index":
		chk("C06.R9,C07.R8", "index-in-bounds", ev.Decided, "slice index "+ev.Key.Pretty()+" is not provably within the length of "+ev.Addr.Pretty()+": the batch can panic instead of settling every item")
	case "return":
		// the run is over: nothing it submitted may still be calling user callbacks
		chk("C04.R3,C06.R4,C11.R4,C09.R8", "run-return", !s.outstanding, "Run returns while submitted tasks may still be running (no Wait on the pool after the last Submit): user callbacks of this run can be invoked after it has ended")
	case "mapupdate", "mapdelete":
		chk("C07.R4", "shared-write", false, "batch processing writes a map shared between items")
	case "append":
		handled := false
		if len(ev.Args) == 2 && len(ev.Results) == 1 {
			// a list built by appending Result{value: src[IV]} once per iteration of a loop over src
			// is an index-preserving copy of src, like the make + index-store form
			if elems := c.E.SliceElems(c.St, ev.Args[1]); len(elems) == 1 && elems[0].K == eng.KStruct && elems[0].T != nil && m.isResult(elems[0].T) {
				s, handled = m.onAppendCopy(c, s, ev, elems[0])
			}
		}
		if len(ev.Args) > 0 && !handled {
			for _, r := range s.recs {
				if r.base != nil && ev.Args[0] == r.base {
					chk("C06.R3", "results-append", false, "the result list is appended to (completion order) instead of being written by index")
				}
			}
		}
	case "call":
		switch ev.Class {
		case "lock":
			chk("C09.R2,C11.R4", "lock", s.held == 0, "mutex locked while already held (self-deadlock)")
			if s.held < 2 {
				s.held++
			}
		case "unlock":
			chk("C09.R2", "unlock", s.held > 0, "mutex unlocked while not held")
			if s.held > 0 {
				s.held--
			}
		case "ToSlice":
			if len(ev.Args) > 0 && len(ev.Results) > 0 {
				s.toSliceArg, s.toSliceRes = ev.Args[0], ev.Results[0]
			}
		case "cfg:GetBatchConcurrency":
			if len(ev.Results) > 0 {
				s.conc = ev.Results[0]
				chk("C08.R6,C19.R7", "config-read", cfgRecv(ev) != nil && cfgRecv(ev).Contains(m.Life.Node) && validAssertions(c, cfgRecv(ev)), "batch concurrency is not read from the node being run (or through a type assertion that is not known to hold)")
				chk("C08.R6,C19.R7", "config-read", life.nPrep >= 1, "the batch concurrency is read before prep ran: what prep (user code of the node) configures for this very run is ignored")
			}
		case "cfg:GetBatchErrorHandling":
			chk("C08.R6,C19.R7", "config-read", cfgRecv(ev) != nil && cfgRecv(ev).Contains(m.Life.Node) && validAssertions(c, cfgRecv(ev)), "batch error handling is not read from the node being run (or through a type assertion that is not known to hold)")
		case "pool.New":
			s.poolEvents = true
			if len(ev.Results) > 0 {
				s.pool = ev.Results[0]
			}
			chk("C08.R4,C19.R7", "pool-size", len(ev.Args) == 1 && s.conc != nil && ev.Args[0] == s.conc, "the worker pool is not sized by the node's configured batch concurrency (got "+prettyArgs(ev.Args)+")")
			chk("C08.R5", "dispatch", m.Case.Conc, "a worker pool is used although the configured concurrency is <= 0 (sequential execution required)")
		case "pool.Submit":
			s.poolEvents = true
			chk("C06.R4", "submit", len(ev.Args) >= 1 && ev.Args[0] == s.pool && s.pool != nil, "task submitted to a pool other than the batch's pool")
			chk("C06.R4,C12.R6", "submit", !s.closed, "a task is submitted after the pool was closed (send on a closed channel panics)")
			chk("C08.R9", "submit", !s.waited, "a task is submitted after the pool was waited on: a barrier inside the submission loop keeps freed workers idle while items are left (the configured concurrency is not usable)")
			s.outstanding, s.submitted = true, true
			s.cow()
			for i := range s.recs {
				if s.recs[i].submits < 2 {
					s.recs[i].submits++
				}
			}
		case "pool.Wait":
			if len(ev.Args) >= 1 && ev.Args[0] == s.pool {
				s.outstanding = false
				s.waited = true
			}
		case "pool.Close":
			chk("C06.R4", "pool-close", !s.outstanding, "the pool is closed before Wait: queued tasks may never run")
			s.closed = true
		case "cb:Exec":
			s = m.onExec(c, s, life, ev, chk)
		default:
			// a stop flag kept in a sync/atomic value: Load / Store are the reads and writes of the
			// shared flag, ordered by the atomic itself instead of the mutex
			if ev.Callee != nil && strings.Contains(eng.CalleeName(ev.Callee), "sync/atomic.") && s.inTask > 0 {
				name := eng.CalleeName(ev.Callee)
				switch name[strings.LastIndex(name, ".")+1:] {
				case "Load":
					chk("C09.R2", "stop-flag-read", true, "")
					if len(ev.Results) > 0 {
						s.flagRead, s.flagReadOK = ev.Results[0], true
					}
				case "Store":
					if len(ev.Args) >= 2 {
						chk("C09.R2", "stop-flag-write", true, "")
						chk("C07.R4", "shared-write", ev.Args[1].IsTrue() || ev.Args[1].IsFalse(), "a variable shared between batch tasks receives a value computed from an item ("+ev.Args[1].Pretty()+"): items are no longer processed independently")
						if ev.Args[1].IsTrue() {
							s.flagSet = true
						}
					}
				default:
					chk("C07.R4", "shared-write", false, "batch tasks update shared state through "+name+": items are no longer processed independently")
				}
			}
		case "cb:ExecFallback":
			chk("C08.R8,C09.R2", "item-exec", s.held == 0, "an item's fallback runs while the batch mutex is held: executions are serialised whatever the configured concurrency")
		case "cb:Post":
			m.onPost(c, s, life, ev, chk)
		}
	}
	return s
}

// exitMatches: the IV test that left the loop compared the next store index with len(base).
func (m *BatchMon) exitMatches(c *eng.Ctx, r *covRec, ev *eng.Event) int8 {
	cond := ev.Cond
	neg := false
	for cond.K == eng.KNot {
		cond, neg = cond.A[0], !neg
	}
	if cond.K != eng.KBin {
		r.doneWhy = " [exit-match step 1]"
		return -1
	}
	taken := ev.Taken != neg // truth of cond
	var idx, bound *eng.Term
	switch cond.S {
	case "<":
		idx, bound = cond.A[0], cond.A[1]
		if taken {
			r.doneWhy = " [exit-match step 2]"
			return -1
		}
	case ">":
		idx, bound = cond.A[1], cond.A[0]
		if taken {
			r.doneWhy = " [exit-match step 3]"
			return -1
		}
	case ">=":
		idx, bound = cond.A[0], cond.A[1]
		if !taken {
			r.doneWhy = " [exit-match step 4]"
			return -1
		}
	case "<=":
		idx, bound = cond.A[1], cond.A[0]
		if !taken {
			r.doneWhy = " [exit-match step 5]"
			return -1
		}
	case "!=":
		idx, bound = cond.A[0], cond.A[1]
		if taken {
			r.doneWhy = " [exit-match step 6]"
			return -1
		}
	default:
		r.doneWhy = " [exit-match step 7]"
		return -1
	}
	k, off := eng.AffParts(idx)
	if k == nil || k.K != eng.KSym {
		r.doneWhy = " [exit-match step 8]"
		return -1
	}
	if l, ok := eng.IVLoop(k.S); !ok || l != r.loop {
		r.doneWhy = " [exit-match step 9]"
		return -1
	}
	if st, ok := c.E.IVStep[k.S]; ok && st != 1 {
		r.doneWhy = " [exit-match step 10]"
		return -1
	}
	// a head-tested loop tests the index it is about to use; a bottom-tested (rotated) loop,
	// e.g. range-over-int, tests the next one after the body has used the current one
	wantOff := r.c
	if r.stored {
		// this iteration's slot has already been written when the test runs: the loop is
		// bottom-tested (whatever block the test ended up in) and asks about the next index
		wantOff = r.c + 1
	}
	if off != wantOff {
		r.doneWhy = " [exit-match step 11]"
		return -1
	}
	if r.isAppend {
		if r.normSrc != nil && bound == sliceLen(r.normSrc) {
			return 1
		}
		r.doneWhy = " [exit-match step 12]"
		return -1
	}
	root, lo, open := splitBase(r.base)
	if !open {
		r.doneWhy = " [exit-match step 13]"
		return -1
	}
	want := sliceLen(r.base)
	if bound == want {
		return 1
	}
	if lo == nil && bound == sliceLen(root) {
		return 1
	}
	// len(root[lo:]) may have been folded to len(root)-lo
	if lo != nil {
		rb, rc := eng.AffParts(sliceLen(root))
		lb, lc := eng.AffParts(lo)
		if lb == nil && bound == eng.Aff(rb, rc-lc) {
			return 1
		}
	}
	r.doneWhy = " [exit-match step 14]"
	return -1
}

// onAppendCopy records one step of a list built by append (see the "append" event).
func (m *BatchMon) onAppendCopy(c *eng.Ctx, s batchState, ev *eng.Event, elem *eng.Term) (batchState, bool) {
	vi, ei, okF := resultFields(m.R)
	if !okF || vi >= len(elem.A) || ei >= len(elem.A) {
		return s, false
	}
	v := elem.A[vi]
	if !(v.K == eng.KLoad && v.A[0].K == eng.KIndexAddr) {
		return s, false
	}
	src, idx := v.A[0].A[0], v.A[0].A[1]
	k, off := eng.AffParts(idx)
	loop := ""
	if k != nil && k.K == eng.KSym && k.G == 0 {
		loop, _ = eng.IVLoop(k.S)
	}
	s.cow()
	r := s.rec(loop)
	if loop == "" || r == nil {
		return s, false
	}
	dst := ev.Args[0]
	if r.base == nil {
		empty := dst.K == eng.KNil || dst.K == eng.KZero || (dst.K == eng.KMake && dst.T != nil && len(dst.A) >= 1 && dst.A[0] != nil && dst.A[0].IsConstInt() && dst.A[0].I == 0)
		r.isAppend, r.c, r.normSrc = true, off, src
		r.startOK = empty && c.E.Eval(c.St.Facts(), eng.Bin("==", eng.Aff(k, off), eng.ConstInt(0))) == eng.TriTrue
		if r.skipped && r.broken == "" {
			r.broken = "an earlier iteration completed without appending its element"
		}
		r.storePos = posStr(ev.Pos)
	} else if !r.isAppend || r.base != dst {
		if r.broken == "" {
			r.broken = "the list is not extended by exactly the previous append's result (" + posStr(ev.Pos) + ")"
		}
	}
	if r.stored && r.broken == "" {
		r.broken = "two elements appended in one iteration (" + posStr(ev.Pos) + ")"
	}
	if (r.normSrc != src || off != r.c) && r.normBad == "" {
		r.normBad = "appended element comes from " + v.Pretty() + ", not from the element of the source list at this iteration's index"
	}
	if !(elem.A[ei].K == eng.KNil || c.IsNil(elem.A[ei]) == eng.TriTrue) && r.normBad == "" {
		r.normBad = "appended element " + elem.Pretty() + " is not a plain value Result"
	}
	r.base = ev.Results[0]
	r.stored = true
	return s, true
}

func (m *BatchMon) iterationEnd(c *eng.Ctx, s *batchState, r *covRec, life lifeState, ev *eng.Event) {
	if r.iterBad != "" {
		return
	}
	if m.Case.Conc {
		if r.submits != 1 && s.poolEvents {
			r.iterBad = fmt.Sprintf("an iteration submitted %d tasks (want exactly 1)", r.submits)
		}
	}
	switch {
	case r.chains > 1:
		r.iterBad = "an item was processed more than once in one iteration"
	case r.chains == 0 && r.resBad == "" && !s.cutInIter && !(m.Case.Stop && m.Case.Conc):
		// no exec and no cancellation observed: only legal for skipped markers, judged at post
		r.iterBad = "an iteration ended without executing its item although no cancellation was observed"
	}
}

func (m *BatchMon) onExec(c *eng.Ctx, s batchState, life lifeState, ev *eng.Event, chk func(string, string, bool, string)) batchState {
	s.cow()
	// user code never runs inside the batch's critical section: one item blocking in exec
	// would stop every other worker at its next lock (the limit would not be usable, and
	// items that wait for each other would deadlock)
	chk("C08.R8,C09.R2", "item-exec", s.held == 0, "an item's exec runs while the batch mutex is held: executions are serialised whatever the configured concurrency")
	if !s.chainOpen {
		for i := range s.recs {
			if s.recs[i].done == 0 && s.recs[i].chains < 2 {
				s.recs[i].chains++
			}
		}
		s.chainOpen = true
		if m.Case.Stop && !m.Case.Conc {
			failed := false
			for _, r := range s.recs {
				if r.failed {
					failed = true
				}
			}
			chk("C09.R1", "item-exec", !failed, "stop mode: an item is executed although an earlier item has already failed")
		}
		if m.Case.Stop && m.Case.Conc && s.inTask > 0 {
			ok := s.flagRead != nil && s.flagReadOK && c.Eval(s.flagRead) == eng.TriFalse
			chk("C09.R2", "item-exec", ok, "stop mode: a task executes its item without first reading the stop flag (under the mutex) and finding it unset")
		}
	}
	if m.Case.Conc {
		chk("C08.R4", "item-exec", s.inTask > 0, "with concurrency > 0 an item is executed outside a pool task (the limit does not apply to it)")
	} else {
		chk("C08.R5", "item-exec", s.inTask == 0 && !s.poolEvents, "with concurrency <= 0 items must be executed by the sequential loop, not by the pool")
	}
	// the argument must be an element of the item list
	ok := false
	if len(ev.Args) == 2 {
		a := unbox(ev.Args[1])
		if a.K == eng.KLoad && a.A[0].K == eng.KIndexAddr {
			s.execIdx = a.A[0].A[1]
			s.execBases = appendUniq(s.execBases, a.A[0].A[0], 3)
			ok = true
		}
	}
	if !ok {
		s.execIdx = nil
	}
	chk("C06.R2", "item-exec", ok, "the value handed to exec is not an element of the item list: ("+prettyArgs(ev.Args)+")")
	return s
}

func (m *BatchMon) onStore(c *eng.Ctx, s batchState, life lifeState, ev *eng.Event, chk func(string, string, bool, string)) batchState {
	st, _ := ev.Instr.(*ssa.Store)
	if ev.Volatile {
		chk("C09.R2", "stop-flag-write", s.held > 0 || !s.submitted, "the shared stop flag is written without holding the mutex")
		if !s.submitted && s.inTask == 0 {
			// initialisation, before any task exists: nothing has failed yet
			chk("C09.R2,C06.R2", "stop-flag-init", ev.Val.IsFalse(), "the shared stop flag starts as "+ev.Val.Pretty()+": in stop mode every item would be skipped although nothing has failed")
		}
		chk("C07.R4", "shared-write", ev.Val.IsTrue() || ev.Val.IsFalse(), "a variable shared between batch tasks receives a value computed from an item ("+ev.Val.Pretty()+"): items are no longer processed independently")
		if ev.Val.IsTrue() {
			s.flagSet = true
		}
		return s
	}
	if ev.Addr.K != eng.KIndexAddr || st == nil || !m.isResult(st.Val.Type()) {
		chk("C07.R4", "shared-write", false, "batch processing writes non-local memory other than a result slot: "+ev.Addr.Pretty())
		return s
	}
	base, idx := ev.Addr.A[0], ev.Addr.A[1]
	k, off := eng.AffParts(idx)
	loop := ""
	if k != nil && k.K == eng.KSym && k.G == 0 {
		loop, _ = eng.IVLoop(k.S)
	}
	s.cow()
	if s.inTask > 0 && strings.Contains(loop, "$task") {
		// a loop running inside a task writes slots: a task may only write its own slot
		chk("C06.R2,C07.R4", "slot-store", false, "a concurrent task writes result slots other than its own ("+base.Pretty()+"["+idx.Pretty()+"]): it can overwrite the outcome another item has already stored")
		return s
	}
	r := s.rec(loop)
	if loop == "" || r == nil {
		chk("C06.R2", "slot-store", false, "a result slot is written at index "+idx.Pretty()+", which is not the index of the current iteration")
		return s
	}
	if r.base == nil {
		r.base, r.c = base, off
		b := c.E.Eval(c.St.Facts(), eng.Bin("==", eng.Aff(k, off), eng.ConstInt(0)))
		r.startOK = b == eng.TriTrue
		if r.skipped && r.broken == "" {
			r.broken = "an earlier iteration completed without storing its slot"
		}
		r.storePos = posStr(ev.Pos)
	} else if r.base != base || r.c != off {
		if r.broken == "" {
			r.broken = fmt.Sprintf("stores of one loop target different slots (%s[%s] at %s)", base.Pretty(), idx.Pretty(), posStr(ev.Pos))
		}
	}
	r.stored = true
	// classify the value
	v := ev.Val
	isErr, errT, valT, known := errOf(c, v)
	note := func(dst *string, msg string) {
		if *dst == "" {
			*dst = msg + " (" + posStr(ev.Pos) + ")"
		}
	}
	// (a) result-slot discipline
	chainRan := r.chains >= 1
	lastOK := (life.last == "Exec" || life.last == "Fb") && knownNil(c, life.lastErr)
	lastFail := (life.last == "Exec" || life.last == "Fb") && knownNonNil(c, life.lastErr)
	// when the fallback was consulted, its outcome is the item's outcome
	if chainRan && life.last == "Fb" {
		switch {
		case lastOK && !((v.K == eng.KTA && v.A[0] == life.lastVal) || (known && !isErr && valT == life.lastVal)):
			note(&r.fbBad, "the fallback produced "+life.lastVal.Pretty()+" without error, but the slot receives "+v.Pretty()+": the fallback's outcome does not replace the exec outcome")
		case lastFail && !(known && isErr && errT.Unwraps(life.lastErr)) && !(known && isErr && wrapsCtxErr(c, errT)):
			note(&r.fbBad, "the fallback failed with "+life.lastErr.Pretty()+", but the slot receives "+v.Pretty())
		case !lastOK && !lastFail:
			// the fallback's outcome was not even looked at: the slot must still be made of it
			fromFb := (v.K == eng.KTA && v.A[0] == life.lastVal) || (valT != nil && valT == life.lastVal) || (errT != nil && errT.Unwraps(life.lastErr))
			if !fromFb {
				note(&r.fbBad, "the fallback was consulted but the slot receives "+v.Pretty()+", which is not made of the fallback's outcome: it does not replace the exec outcome")
			}
		}
	}
	switch {
	case v.K == eng.KTA && m.isResult(v.T):
		if !(chainRan && lastOK && v.A[0] == life.lastVal) {
			note(&r.resBad, "slot receives "+v.Pretty()+", which is not the outcome of this item's exec phase")
		}
	case known && !isErr:
		if !(chainRan && lastOK && valT == life.lastVal) {
			note(&r.resBad, "slot receives the success value "+valT.Pretty()+" although it is not the result of this item's exec phase: an item that never ran would look successful")
		} else if m.R.Result != nil && c.Eval(eng.TAOk(valT, m.R.Result)) != eng.TriFalse {
			// the exec outcome may itself be a Result (an error Result handed through by a function-style node)
			note(&r.wrapBad, "the item's exec outcome "+valT.Pretty()+" is wrapped into a new Result without first testing whether it already is a Result: an error Result returned by a function-style exec would reach post wrapped a second time, as a non-error")
		}
	case known && isErr:
		r.failed = true
		if lr := life.rec(life.execLoop); chainRan && life.cut && lastFail && lr != nil && lr.exited != 1 && !wrapsCtxErr(c, errT) {
			// the item's own exec phase was interrupted by the cancellation (before an attempt or in the wait)
			note(&r.cutBad, "an item whose exec phase was cut short by cancellation is recorded with "+errT.Pretty()+", which does not match the context's error")
		}
		switch {
		case chainRan && (life.last == "Exec" || life.last == "Fb") && !lastFail:
			note(&r.resBad, "slot receives an error ("+errT.Pretty()+") although the item's exec phase is not known to have failed: a successful outcome would be discarded")
		case wrapsCtxErr(c, errT) && (life.cut || s.cutInIter):
			// cancelled before or between attempts
		case chainRan && lastFail:
			if s.inTask > 0 {
				s.taskFailed = true
			}
			if !errT.Unwraps(life.lastErr) {
				note(&r.resBad, "slot receives error "+errT.Pretty()+" instead of the error of the item's last attempt/fallback "+life.lastErr.Pretty())
			}
		case chainRan:
			// the chain ended without a failing callback: cancelled between attempts
			if !wrapsCtxErr(c, errT) {
				note(&r.resBad, "slot receives error "+errT.Pretty()+" after an exec phase that did not fail")
			}
		default:
			if !(isFreshErr(errT) || wrapsCtxErr(c, errT)) {
				note(&r.resBad, "slot of a never-executed item receives "+errT.Pretty())
			}
		}
	default:
		note(&r.resBad, "slot receives "+v.Pretty()+", whose success/error state is not established")
	}
	if chainRan && s.execIdx != nil && s.execIdx != idx {
		note(&r.resBad, "slot "+idx.Pretty()+" receives the outcome of item "+s.execIdx.Pretty())
	}
	// (b) skipped-marker discipline
	if !(known && isErr && (isFreshErr(errT) || errT.K == eng.KParam || wrapsCtxErr(c, errT)) && valT.K == eng.KNil) {
		note(&r.fillBad, "a skipped item is marked with "+v.Pretty()+", not with an error result")
	}
	// (c) normalisation discipline: Result{value: src[idx]}
	normOK := false
	if known && !isErr && valT != nil && valT.K == eng.KLoad && valT.A[0].K == eng.KIndexAddr && valT.A[0].A[1] == idx {
		src := valT.A[0].A[0]
		if r.normSrc == nil || r.normSrc == src {
			r.normSrc = src
			normOK = true
		}
	}
	if !normOK {
		note(&r.normBad, "normalised item "+idx.Pretty()+" is "+v.Pretty()+", not the prep value's element at the same index")
	}
	return s
}

func (m *BatchMon) onPost(c *eng.Ctx, s batchState, life lifeState, ev *eng.Event, chk func(string, string, bool, string)) {
	if len(ev.Args) != 4 {
		return
	}
	items, results := unbox(ev.Args[2]), unbox(ev.Args[3])
	boxed := ev.Args[2].K == eng.KBox && ev.Args[3].K == eng.KBox && isSliceOf(ev.Args[2].T, m.R.Result) && isSliceOf(ev.Args[3].T, m.R.Result)
	chk("C06.R6", "post", boxed, "batch post must receive the item list and the result list as []Result, got ("+prettyArgs(ev.Args)+")")
	chk("C06.R4,C11.R4,C04.R3,C09.R8", "post", !s.outstanding, "post is invoked while submitted tasks may still be running (no Wait on the pool after the last Submit): exec callbacks can then follow post, or a failure that ends the run")
	li, lr := c.E.LenTerm(c.St, items), c.E.LenTerm(c.St, results)
	// empty batch: both lists empty
	if c.Eval(eng.Bin("==", li, eng.ConstInt(0))) == eng.TriTrue {
		chk("C06.R1", "post-empty", c.Eval(eng.Bin("==", lr, eng.ConstInt(0))) == eng.TriTrue, "an empty batch must hand post an empty result list")
		// post may be told "nothing to do" only when what prep produced is known to be empty
		var P *eng.Term
		if life.prepVal != nil && m.R.Result != nil {
			switch m.Case.Prep {
			case 0:
				P = eng.TA(life.prepVal, types.NewSlice(m.R.Result))
			case 1:
				P = eng.TA(life.prepVal, types.NewSlice(types.Universe.Lookup("any").Type()))
			case 2:
				if s.toSliceRes != nil && s.toSliceArg == life.prepVal {
					P = s.toSliceRes
				}
			}
		}
		okEmpty := P != nil && c.Eval(eng.Bin("==", c.E.LenTerm(c.St, P), eng.ConstInt(0))) == eng.TriTrue
		chk("C06.R1,C07.R2", "post-empty", okEmpty, "post receives empty lists although the list prep produced is not known to be empty on this path: items would be dropped without being processed")
		return
	}
	chk("C06.R1", "post", li == lr, "the result list handed to post has length "+lr.Pretty()+", the item list "+li.Pretty())
	// item list provenance
	m.checkItems(c, s, life, items, chk)
	for _, b := range s.execBases {
		chk("C06.R2", "post", b == items, "items were taken from "+b.Pretty()+" but post receives "+items.Pretty())
	}
	// result coverage
	var rr *covRec
	for i := range s.recs {
		if s.recs[i].base == results {
			rr = &s.recs[i]
		}
	}
	if rr == nil {
		chk("C06.R2,C09.R3,C11.R3", "post", false, "no per-item store into the result list handed to post was found ("+results.Pretty()+")")
		return
	}
	chk("C06.R2,C09.R3,C11.R3,C17.R1", "post", rr.broken == "", "result slots are not written once per iteration: "+rr.broken)
	chk("C06.R2,C09.R3,C11.R3", "post", rr.startOK, "the first iteration does not write slot 0")
	chk("C06.R2,C07.R5,C09.R4,C11.R3,C17.R1,C02.R5", "post", rr.resBad == "", rr.resBad)
	chk("C20.R6,C11.R5", "post", rr.cutBad == "", rr.cutBad)
	chk("C02.R5,C07.R3", "post", rr.fbBad == "", rr.fbBad)
	chk("C06.R5,C07.R2", "post", rr.iterBad == "", rr.iterBad)
	chk("C17.R1,C06.R2", "post", rr.wrapBad == "", rr.wrapBad)
	if rr.done == 1 {
		chk("C09.R3,C11.R3", "post", true, "")
		if !m.Case.Stop {
			chk("C07.R1", "post", true, "")
		}
		return
	}
	// the item loop was left early
	if !m.Case.Stop {
		chk("C07.R1", "post", false, "in continue mode the item loop is left before all items were processed")
	}
	why := ""
	switch {
	case rr.done == -1:
		why = "the item loop's exit test does not compare the next index with the length of the result list"
	case !rr.stored:
		why = "the item loop is left without storing the current item's slot"
	default:
		// need a completed fill of results[idx+1:]
		found := false
		for i := range s.recs {
			f := &s.recs[i]
			if f == rr {
				continue
			}
			fb := f.base
			empty := false
			if fb == nil && f.emptyOf != nil {
				fb, empty = f.emptyOf, true
			}
			if fb == nil {
				continue
			}
			root, lo, open := splitBase(fb)
			if root != results || !open || lo == nil {
				continue
			}
			found = true
			k, off := eng.AffParts(lo)
			kl, _ := eng.IVLoop(symName(k))
			switch {
			case kl != rr.loop || off != rr.c+1 || (k != nil && k.G != 0):
				why = "skipped items are marked starting at index " + lo.Pretty() + ", not at the index after the current item"
			case empty:
				// nothing left to mark
			case f.done != 1:
				why = "the loop marking skipped items does not run to the end of the result list" + f.doneWhy
			case !f.startOK || f.broken != "":
				why = "the loop marking skipped items does not write every slot: " + f.broken
			case f.fillBad != "":
				why = f.fillBad
			}
		}
		if !found {
			why = "the item loop is left early and the remaining slots stay zero Results, which post sees as successful nil values"
		}
	}
	chk("C09.R3,C11.R3", "post", why == "", why)
}

// zeroTripSlice: a loop left at its very first test "0 < len(x)" (or the
// rotated equivalents) ran no iteration because x is empty; returns x.
// guardedEmptySlice: the branch outcome says len(S) == 0 for a slice S (len(S) == 0 taken,
// len(S) != 0 / 0 < len(S) / len(S) > 0 not taken).
func guardedEmptySlice(ev *eng.Event) *eng.Term {
	cond := ev.Cond
	if cond == nil {
		return nil
	}
	neg := false
	for cond.K == eng.KNot {
		cond, neg = cond.A[0], !neg
	}
	if cond.K != eng.KBin {
		return nil
	}
	truth := ev.Taken != neg
	zero := func(t *eng.Term) bool { return t.IsConstInt() && t.I == 0 }
	x, y := cond.A[0], cond.A[1]
	switch {
	case cond.S == "==" && truth && x.K == eng.KLen && zero(y):
		return x.A[0]
	case cond.S == "==" && truth && y.K == eng.KLen && zero(x):
		return y.A[0]
	case cond.S == "!=" && !truth && x.K == eng.KLen && zero(y):
		return x.A[0]
	case cond.S == "<" && !truth && zero(x) && y.K == eng.KLen:
		return y.A[0]
	case cond.S == ">" && !truth && x.K == eng.KLen && zero(y):
		return x.A[0]
	}
	return nil
}

func zeroTripSlice(ev *eng.Event) *eng.Term {
	cond := ev.Cond
	neg := false
	for cond.K == eng.KNot {
		cond, neg = cond.A[0], !neg
	}
	if cond.K != eng.KBin {
		return nil
	}
	taken := ev.Taken != neg
	var bound *eng.Term
	switch {
	case cond.S == "<" && !taken:
		bound = cond.A[1]
	case cond.S == ">" && !taken:
		bound = cond.A[0]
	case cond.S == ">=" && taken:
		bound = cond.A[1]
	case cond.S == "<=" && taken:
		bound = cond.A[0]
	}
	if bound != nil && bound.K == eng.KLen {
		return bound.A[0]
	}
	return nil
}

// cfgRecv returns the receiver of a configuration getter call (static or through an interface).
// validAssertions: every type assertion the term goes through is known to hold on this
// path (the value of a failed comma-ok assertion is the zero value, not the node).
func validAssertions(c *eng.Ctx, t *eng.Term) bool {
	ok := true
	t.Walk(func(n *eng.Term) {
		if n.K == eng.KTA && len(n.A) == 1 && n.T != nil && c.Eval(eng.TAOk(n.A[0], n.T)) != eng.TriTrue {
			ok = false
		}
	})
	return ok
}

func cfgRecv(ev *eng.Event) *eng.Term {
	if ev.Recv != nil {
		return ev.Recv
	}
	if len(ev.Args) > 0 {
		return ev.Args[0]
	}
	return nil
}

func symName(k *eng.Term) string {
	if k == nil || k.K != eng.KSym {
		return ""
	}
	return k.S
}

func isSliceOf(t types.Type, elem *types.Named) bool {
	s, ok := t.Underlying().(*types.Slice)
	return ok && elem != nil && types.Identical(s.Elem(), elem)
}

// checkItems: the item list is prep's value itself or an index-preserving copy of it.
func (m *BatchMon) checkItems(c *eng.Ctx, s batchState, life lifeState, items *eng.Term, chk func(string, string, bool, string)) {
	if items.K == eng.KTA && items.A[0] == life.prepVal {
		chk("C06.R7", "items", true, "")
		return
	}
	var nr *covRec
	for i := range s.recs {
		if s.recs[i].base == items {
			nr = &s.recs[i]
		}
	}
	if nr == nil {
		// a list that is never written: must be empty or prep's value
		chk("C06.R7", "items", false, "the item list handed to post ("+items.Pretty()+") is neither prep's value nor a copy of it")
		return
	}
	ok := nr.broken == "" && nr.startOK && nr.done == 1 && nr.normBad == ""
	why := nr.normBad
	if why == "" {
		why = nr.broken
	}
	if why == "" && !nr.startOK {
		why = "normalisation does not start at index 0"
	}
	if why == "" && nr.done != 1 {
		why = "normalisation loop does not cover the whole list"
	}
	chk("C06.R7", "items", ok, "prep's value is not copied index by index into the item list: "+why)
	if nr.normSrc != nil {
		src := nr.normSrc
		fromPrep := (src.K == eng.KTA && src.A[0] == life.prepVal) || (src == s.toSliceRes && s.toSliceArg == life.prepVal)
		chk("C06.R7", "items", fromPrep, "items are copied from "+src.Pretty()+", which is not prep's value")
		if !nr.isAppend { // one append per iteration of an exhausted loop over src gives len(src) by construction
			chk("C06.R7", "items", c.E.LenTerm(c.St, items) == c.E.LenTerm(c.St, src), "the item list and prep's list differ in length")
		}
	}
}
