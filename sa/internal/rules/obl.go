// Package rules holds the per-property rule sets (DESIGN.md §5) evaluated on
// the engines' results.
package rules

import (
	"fmt"
	"go/token"
	"sort"
	"strings"
)

// Fail is one failing instance of an obligation.
type Fail struct {
	Kind string   `json:"kind"` // VIOLATED or UNPROVEN
	Msg  string   `json:"msg"`
	Pos  string   `json:"pos"`
	Path []string `json:"path,omitempty"`
}

// Ob is an obligation: a rule applied to a construct role.
type Ob struct {
	Prop      string   `json:"property"`
	Rule      string   `json:"rule"`
	Construct string   `json:"construct"`
	Instances int      `json:"instances"` // how many (abstract path, site) instances were evaluated
	Sites     []string `json:"sites,omitempty"`
	Fails     []Fail   `json:"fails,omitempty"`
	sites     map[string]bool
}

// Key identifies the obligation for known-findings matching.
func (o *Ob) Key() string { return o.Rule + "@" + o.Construct }

// Col collects obligations.
type Col struct {
	obs   map[string]*Ob
	order []string
}

// NewCol creates an empty collector.
func NewCol() *Col { return &Col{obs: map[string]*Ob{}} }

func propOf(rule string) string {
	if i := strings.Index(rule, "."); i > 0 {
		return rule[:i]
	}
	return rule
}

func posStr(p token.Position) string {
	if !p.IsValid() {
		return ""
	}
	f := p.Filename
	if i := strings.LastIndex(f, "/"); i >= 0 {
		f = f[i+1:]
	}
	return fmt.Sprintf("%s:%d:%d", f, p.Line, p.Column)
}

func (c *Col) get(rule, construct string) *Ob {
	k := rule + "@" + construct
	o := c.obs[k]
	if o == nil {
		o = &Ob{Prop: propOf(rule), Rule: rule, Construct: construct, sites: map[string]bool{}}
		c.obs[k] = o
		c.order = append(c.order, k)
	}
	return o
}

// Check records one evaluated instance of rule@construct. rule may be a
// comma-separated list: the instance then counts for each of the rules.
func (c *Col) Check(rule, construct string, ok bool, pos token.Position, msg string, path []string) {
	if strings.Contains(rule, ",") {
		for _, r := range strings.Split(rule, ",") {
			c.Check(strings.TrimSpace(r), construct, ok, pos, msg, path)
		}
		return
	}
	o := c.get(rule, construct)
	o.Instances++
	ps := posStr(pos)
	if ps != "" && !o.sites[ps] {
		o.sites[ps] = true
		o.Sites = append(o.Sites, ps)
	}
	if ok {
		return
	}
	c.fail(o, "VIOLATED", ps, msg, path)
}

// CheckAt is Check with the site given as text (e.g. the position of a related construct).
func (c *Col) CheckAt(rule, construct string, ok bool, site string, msg string, path []string) {
	if strings.Contains(rule, ",") {
		for _, r := range strings.Split(rule, ",") {
			c.CheckAt(strings.TrimSpace(r), construct, ok, site, msg, path)
		}
		return
	}
	o := c.get(rule, construct)
	o.Instances++
	if site != "" && !o.sites[site] {
		o.sites[site] = true
		o.Sites = append(o.Sites, site)
	}
	if ok {
		return
	}
	c.fail(o, "VIOLATED", site, msg, path)
}

// Unproven records that the rule could not be decided for the construct.
func (c *Col) Unproven(rule, construct string, pos token.Position, msg string, path []string) {
	if strings.Contains(rule, ",") {
		for _, r := range strings.Split(rule, ",") {
			c.Unproven(strings.TrimSpace(r), construct, pos, msg, path)
		}
		return
	}
	o := c.get(rule, construct)
	o.Instances++
	c.fail(o, "UNPROVEN", posStr(pos), msg, path)
}

func (c *Col) fail(o *Ob, kind, ps, msg string, path []string) {
	for _, f := range o.Fails {
		if f.Pos == ps && f.Msg == msg {
			return
		}
	}
	if len(o.Fails) >= 8 {
		return
	}
	if len(path) > 60 {
		path = append(append([]string{}, path[:20]...), append([]string{"..."}, path[len(path)-39:]...)...)
	}
	o.Fails = append(o.Fails, Fail{Kind: kind, Msg: msg, Pos: ps, Path: path})
}

// Merge adds all obligations of other.
func (c *Col) Merge(other *Col) {
	for _, k := range other.order {
		src := other.obs[k]
		o := c.get(src.Rule, src.Construct)
		o.Instances += src.Instances
		for _, s := range src.Sites {
			if !o.sites[s] {
				o.sites[s] = true
				o.Sites = append(o.Sites, s)
			}
		}
		for _, f := range src.Fails {
			c.fail(o, f.Kind, f.Pos, f.Msg, f.Path)
		}
	}
}

// List returns the obligations sorted by rule then construct.
func (c *Col) List() []*Ob {
	var out []*Ob
	for _, k := range c.order {
		o := c.obs[k]
		sort.Strings(o.Sites)
		out = append(out, o)
	}
	sort.SliceStable(out, func(i, j int) bool {
		if out[i].Rule != out[j].Rule {
			return out[i].Rule < out[j].Rule
		}
		return out[i].Construct < out[j].Construct
	})
	return out
}

// ForProp returns the obligations of one property.
func (c *Col) ForProp(prop string) []*Ob {
	var out []*Ob
	for _, o := range c.List() {
		if o.Prop == prop {
			out = append(out, o)
		}
	}
	return out
}
