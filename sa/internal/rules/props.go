package rules

import (
	"path"
	"sort"
	"strings"

	"flytsa/internal/load"
)

// Floor is a vacuity guard: at least Min evaluated instances must exist among
// the obligations whose key (rule@construct) matches the glob Pattern.
type Floor struct {
	Pattern string
	Min     int
	Why     string
}

// Prop describes how one property is decided.
type Prop struct {
	ID          string
	Units       []string
	Floors      []Floor
	Technique   string
	Explanation string
	CaseRule    string
	Assumptions []string
}

// UnitResult is what an analysis unit produced.
type UnitResult struct {
	Col   *Col
	Stats Stats
}

// Tier parameters.
type Tier struct {
	Name  string
	Depth int
}

// Unit functions by name.
var Units = map[string]func(p *load.Program, r *Roles, t Tier) *UnitResult{
	"run": func(p *load.Program, r *Roles, t Tier) *UnitResult {
		res := AnalyzeRun(p, r, t.Depth)
		return &UnitResult{Col: res.Col, Stats: res.Stats}
	},
}

var commonAssumptions = []string{
	"A1: the Go toolchain, go/types and go/ssa (x/tools v0.29.0) model the program faithfully; the analyser is exercised both ways by its self-test catalogue",
	"A2: runtime contracts of sync, channels, select, time, context, errors.Is/As over %w, reflect, encoding/json and Go maps",
	"A3: user callbacks are opaque: they may return anything and cancel the context, but do not panic and do not mutate flyt internals during a run",
	"A4: retry budget N >= 1; receivers non-nil; stores/pools/flows built by their constructors",
}

// Props is the registry of decided properties.
var Props = map[string]*Prop{}

func reg(p *Prop) { Props[p.ID] = p }

// PropIDs returns the registered ids sorted.
func PropIDs() []string {
	var ids []string
	for id := range Props {
		ids = append(ids, id)
	}
	sort.Strings(ids)
	return ids
}

// MatchKey reports whether an obligation key matches a glob (with * crossing separators).
func MatchKey(pattern, key string) bool {
	// path.Match does not let * cross '/', obligation keys may contain '/', so translate
	p := strings.ReplaceAll(pattern, "/", "\x00")
	k := strings.ReplaceAll(key, "/", "\x00")
	ok, err := path.Match(p, k)
	return err == nil && ok
}

func init() {
	lifeExpl := "Path-sensitive typestate/provenance abstract interpretation (engine LIFE) of Run with every in-package static callee inlined (runBatch, sequential/concurrent item loops, the submitted task closure, the per-item retry function), explored to a fixpoint under the four cases of the immutable batch configuration (stop|continue x sequential|concurrent). User callbacks are opaque events whose results are symbolic; every branch the collected facts do not decide is followed both ways, so every outcome script, budget N>=1 and cancellation point is covered by finitely many abstract states. Each obligation is a rule evaluated at a construct role on every abstract path reaching it."
	reg(&Prop{ID: "C01", Units: []string{"run"}, Technique: "static analysis: path-sensitive typestate + value-provenance abstract interpretation over go/ssa",
		Explanation: lifeExpl + " C01 decides: prep first/once with the run's own store; exec only after a successful prep or a failed exec, with prep's value; post at most once, only after the exec phase (attempt or fallback) is known to have succeeded, with (store, prep value, that result); returns are (post's action|default, nil) or (\"\", non-nil).",
		CaseRule:    "an obligation instance is one (abstract path, call site) pair at which the rule was evaluated; distinct = distinct rule@construct keys with at least one instance",
		Floors: []Floor{{"C01.R1@single|*:cb:Prep", 1, "prep invoke on the single-node path"}, {"C01.R2@single|*:cb:Exec", 1, "exec invoke on the single-node path"},
			{"C01.R3@single|*:cb:Post", 1, "post invoke on the single-node path"}, {"C01.R5@single|*:return", 1, "returns of the single-node path"},
			{"C01.R2@batch|*:cb:Exec", 1, "per-item exec"}, {"C01.R3@batch|*:cb:Post", 1, "batch post"}},
		Assumptions: commonAssumptions})
	reg(&Prop{ID: "C04", Units: []string{"run"}, Technique: "static analysis: path-sensitive error-provenance (wrap-chain) abstract interpretation over go/ssa",
		Explanation: lifeExpl + " C04 decides on Run (single and batch paths): nil error iff the path ended in a successful post; every error return that follows a failing callback wraps (fmt.Errorf %w / errors.Join / identity) that callback's own error term, and no further phase callback is invoked after it.",
		CaseRule:    "an obligation instance is one (abstract path, return or call site) pair; distinct = distinct rule@construct keys",
		Floors:      []Floor{{"C04.R1@single|*:return", 1, "success returns, single"}, {"C04.R2@single|*:return", 3, "error returns (prep, exec, post), single"}, {"C04.R2@batch|*:return", 2, "error returns, batch"}, {"C04.R3@*", 3, "fail-stop checks"}},
		Assumptions: commonAssumptions})
	reg(&Prop{ID: "C05", Units: []string{"run"}, Technique: "static analysis: path-sensitive context-observation typestate over go/ssa",
		Explanation: lifeExpl + " C05 decides on the single-node path of Run: a context observation (ctx.Err()==nil edge, or a select with ctx.Done() taking another case) lies between the previous user callback (or the start) and prep / every exec attempt; every path that observed cancellation invokes no further callback and returns a non-nil error wrapping a ctx.Err() result; the retry wait selects on ctx.Done().",
		CaseRule:    "an obligation instance is one (abstract path, call/return site) pair; distinct = distinct rule@construct keys",
		Floors:      []Floor{{"C05.R1@single|*:cb:Prep", 1, "observation before prep"}, {"C05.R1@single|*:cb:Exec", 1, "observation before each attempt"}, {"C05.R2@single|*:return", 3, "returns after cancellation"}, {"C05.R3@single|*", 1, "interruptible wait"}},
		Assumptions: append(append([]string{}, commonAssumptions...), "select fairness when timer and Done are ready together is not decided (treated as observed)")})
	reg(&Prop{ID: "C18", Units: []string{"run"}, Technique: "static analysis: path-sensitive return-predicate (non-empty fact) over go/ssa",
		Explanation: lifeExpl + " C18 decides: at every nil-error return of Run (single node, batch with items, empty batch) the action term is a non-empty constant or carries the fact != \"\" on that path.",
		CaseRule:    "an obligation instance is one success-return instance on an abstract path; distinct = distinct return roles",
		Floors:      []Floor{{"C18.R1@single|*:success-return", 1, "single-node success return"}, {"C18.R1@batch|*:success-return", 2, "batch and empty-batch success returns (one per post call site)"}},
		Assumptions: commonAssumptions})
}
