package rules

import (
	"path"
	"sort"
	"strings"

	"flytsa/internal/load"
)

// Floor is a vacuity guard: at least Min evaluated instances must exist among
// the obligations whose key (rule@construct) matches the glob Pattern.
type Floor struct {
	Pattern string
	Min     int
	Why     string
}

// Prop describes how one property is decided.
type Prop struct {
	ID          string
	Units       []string
	Floors      []Floor
	Technique   string
	Explanation string
	CaseRule    string
	Assumptions []string
}

// UnitResult is what an analysis unit produced.
type UnitResult struct {
	Col   *Col
	Stats Stats
}

// Tier parameters.
type Tier struct {
	Name  string
	Depth int
}

// Unit functions by name.
var Units = map[string]func(p *load.Program, r *Roles, t Tier) *UnitResult{
	"loops":    func(p *load.Program, r *Roles, t Tier) *UnitResult { return AnalyzeRetryLoops(p, r) },
	"bind":     func(p *load.Program, r *Roles, t Tier) *UnitResult { return AnalyzeBind(p, r, t.Depth) },
	"config":   func(p *load.Program, r *Roles, t Tier) *UnitResult { return AnalyzeConfig(p, r, t.Depth) },
	"adapters": func(p *load.Program, r *Roles, t Tier) *UnitResult { return AnalyzeAdapters(p, r, t.Depth) },
	"access":   func(p *load.Program, r *Roles, t Tier) *UnitResult { return AnalyzeAccessors(p, r, t.Depth) },
	"pool":     func(p *load.Program, r *Roles, t Tier) *UnitResult { return AnalyzePool(p, r, t.Depth) },
	"store":    func(p *load.Program, r *Roles, t Tier) *UnitResult { return AnalyzeStore(p, r, t.Depth) },
	"flow":     func(p *load.Program, r *Roles, t Tier) *UnitResult { return AnalyzeFlow(p, r, t.Depth) },
	"run": func(p *load.Program, r *Roles, t Tier) *UnitResult {
		res := AnalyzeRun(p, r, t.Depth)
		return &UnitResult{Col: res.Col, Stats: res.Stats}
	},
}

var commonAssumptions = []string{
	"A1: the Go toolchain, go/types and go/ssa (x/tools v0.29.0) model the program faithfully; the analyser is exercised both ways by its self-test catalogue",
	"A2: runtime contracts of sync, channels, select, time, context, errors.Is/As over %w, reflect, encoding/json and Go maps",
	"A3: user callbacks are opaque: they may return anything and cancel the context, but do not panic and do not mutate flyt internals during a run",
	"A4: retry budget N >= 1; receivers non-nil; stores/pools/flows built by their constructors",
}

// Props is the registry of decided properties.
var Props = map[string]*Prop{}

func reg(p *Prop) { Props[p.ID] = p }

// PropIDs returns the registered ids sorted.
func PropIDs() []string {
	var ids []string
	for id := range Props {
		ids = append(ids, id)
	}
	sort.Strings(ids)
	return ids
}

// MatchKey reports whether an obligation key matches a glob (with * crossing separators).
func MatchKey(pattern, key string) bool {
	// path.Match does not let * cross '/', obligation keys may contain '/', so translate
	p := strings.ReplaceAll(pattern, "/", "\x00")
	k := strings.ReplaceAll(key, "/", "\x00")
	ok, err := path.Match(p, k)
	return err == nil && ok
}

func init() {
	lifeExpl := "Path-sensitive typestate/provenance abstract interpretation (engine LIFE) of Run with every in-package static callee inlined (runBatch, sequential/concurrent item loops, the submitted task closure, the per-item retry function), explored to a fixpoint once per cell of a case split over immutable inputs, every dimension an exhaustive partition: batch configuration (stop|continue x sequential|concurrent) x dynamic type of the node (*BatchNode | *BatchNodeBuilder | any other) x dynamic type of prep's result on the batch paths ([]Result | []any | any other) - 28 cells explored side by side; a cell only prunes the branches its assumption decides. User callbacks are opaque events whose results are symbolic; every branch the collected facts do not decide is followed both ways, so every outcome script, budget N>=1 and cancellation point is covered by finitely many abstract states. Each obligation is a rule evaluated at a construct role on every abstract path reaching it."
	reg(&Prop{ID: "C01", Units: []string{"run", "adapters"}, Technique: "static analysis: path-sensitive typestate + value-provenance abstract interpretation over go/ssa",
		Explanation: lifeExpl + " C01 decides: prep first/once with the run's own store; exec only after a successful prep or a failed exec, with prep's value; post at most once, only after the exec phase (attempt or fallback) is known to have succeeded, with (store, prep value, that result); returns are (post's action|default, nil) or (\"\", non-nil).",
		CaseRule:    "an obligation instance is one (abstract path, call site) pair at which the rule was evaluated; distinct = distinct rule@construct keys with at least one instance",
		Floors: []Floor{{"C01.R1@single|*:cb:Prep", 1, "prep invoke on the single-node path"}, {"C01.R2@single|*:cb:Exec", 1, "exec invoke on the single-node path"},
			{"C01.R3@single|*:cb:Post", 1, "post invoke on the single-node path"}, {"C01.R5@single|*:return", 1, "returns of the single-node path"}, {"C01.R4@single|*:return", 1, "post not skipped after a successful exec phase"},
			{"C01.R2@batch|*:cb:Exec", 1, "per-item exec"}, {"C01.R3@batch|*:cb:Post", 1, "batch post"},
			{"C01.R6@*:delegation", 10, "library phase methods forward positionally"}, {"C01.R6@*:used", 6, "configured functions are used"}, {"C01.R6@*:calls-once", 8, "phase methods call their function once"}, {"C01.R7@*:implements-*", 18, "method-set table"}, {"C01.R7@*-resolution", 30, "promoted method resolution"}},
		Assumptions: commonAssumptions})
	reg(&Prop{ID: "C02", Units: []string{"run", "loops", "adapters", "config"}, Technique: "static analysis: scalar-evolution trip-count analysis + path-sensitive retry typestate over go/ssa",
		Explanation: lifeExpl + " C02 decides: (R1, static arithmetic) every loop that directly contains an exec attempt has a unit-step attempt counter whose exit test, evaluated after attempt j, is equivalent to j < V for one symbolic V, and (R1, path-sensitive half) V is the node's GetMaxRetries() value, or the constant 1 for a node known not to expose retry settings; (R2) exactly one attempt per iteration; (R3) a further attempt only after a known-failed one, and a run fails with an exec error only after the budget test exhausted; (R4) the fallback is invoked at most once, only after exhaustion with the last attempt known failed, on the node being run, with (prep value, that last error), and is not skipped when the node may implement it. Same rules on the single-node path and on the per-item path. (R6) every form of the budget setter (option, NodeBuilder, BatchNodeBuilder) stores its argument unconditionally and unchanged in the field GetMaxRetries returns.",
		CaseRule:    "an obligation instance is one (abstract path, site) pair or one loop for the static arithmetic rule; distinct = distinct rule@construct keys",
		Floors: []Floor{{"C02.R1@*:retry-loop", 2, "static trip-count obligations (single-node loop and per-item loop)"}, {"C02.R1@*:interface-shape", 3, "the node interfaces have their documented method sets"}, {"C02.R1@BaseNode.GetMaxRetries:identity", 1, "the budget getter returns the configured budget"}, {"C02.R1@single|*:budget-test", 1, "budget provenance, single"}, {"C02.R1@batch|*:budget-test", 1, "budget provenance, per item"},
			{"C02.R3@single|*:cb:Exec", 1, "retry precondition"}, {"C02.R3@CustomNode.Exec:error-checked", 1, "function-style exec reports failures as failures"}, {"C02.R4@single|*:cb:ExecFallback", 1, "fallback, single"}, {"C02.R4@batch|*:cb:ExecFallback", 1, "fallback, per item"}, {"C02.R2@*:retry-loop-iteration", 2, "one attempt per iteration"}, {"C02.R6@*WithMaxRetries:stores-argument", 3, "every form of the budget setter stores its argument"}},
		Assumptions: append(append([]string{}, commonAssumptions...), "a budget that changes between two reads of GetMaxRetries() is outside the property (it is read once per run/item)")})
	reg(&Prop{ID: "C20", Units: []string{"run", "config"}, Technique: "static analysis: path-sensitive wait-event typestate over go/ssa",
		Explanation: lifeExpl + " C20 decides the structural cause of the timing statement: on every retry path a wait event (select on a timer channel created with the node's GetWait() value) lies between the failed attempt and the next one unless wait<=0 is established on that path; no wait precedes the first attempt or follows the last one (before fallback/post/return/next item); every wait is a select that also receives from ctx.Done(); time.Sleep and bare timer receives are not used. Measured durations are delegated to the time package's contract. (R5) every form of the wait setter stores its argument unconditionally and unchanged in the field GetWait returns, whatever the rest of the configuration is at that moment.",
		CaseRule:    "an obligation instance is one (abstract path, site) pair; distinct = distinct rule@construct keys",
		Floors:      []Floor{{"C20.R1@single|*:cb:Exec", 1, "wait before retries, single"}, {"C20.R1@batch|*:cb:Exec", 1, "wait before retries, per item"}, {"C20.R4@*", 2, "interruptible wait selects"}, {"C20.R2@*", 2, "no wait before first attempt"}, {"C20.R3@*", 3, "no wait after last attempt"}, {"C20.R5@*WithWait:stores-argument", 3, "every form of the wait setter stores its argument unconditionally"}},
		Assumptions: append(append([]string{}, commonAssumptions...), "elapsed time >= w is the contract of time.After/time.NewTimer; promptness after cancellation is the contract of select")})
	batchExpl := lifeExpl + " On the batch paths the result list is abstracted per loop: for every loop that stores Result values through an index, the monitor records the indexed slice, the offset of the index from the loop's induction variable, whether every completed iteration stored its slot, how the loop was left (induction-variable test against the slice length, or early), and the provenance class of every stored value."
	reg(&Prop{ID: "C06", Units: []string{"run", "adapters"}, Technique: "static analysis: path-sensitive slot-coverage/provenance abstract interpretation over go/ssa (batch paths, task closure inlined)",
		Explanation: batchExpl + " C06 decides: post is invoked once, after pool.Wait() has followed the last Submit; it receives the item list and a result list made with len(items); the item list is prep's []Result itself or an index-preserving copy of prep's list; every result store writes slot IV+c of the current iteration with a value derived from the exec phase of the item loaded from items[IV+c] in the same iteration/task (or an error); one submit / one exec chain per iteration; no append to the result list. (R8) the exec method of function-style nodes invokes the configured exec function exactly once on every path (an item is never passed over because of what it carries). (R9) every slice index on the batch paths is provably within the length of the indexed slice (a conversion or result list that is too short would panic instead of settling every item); post is handed empty lists only on paths where the list prep produced is known to be empty.",
		CaseRule:    "an obligation instance is one (abstract path, site) pair; distinct = distinct rule@construct keys",
		Floors: []Floor{{"C06.R1@batch|*:post", 1, "length agreement"}, {"C06.R2@batch|*:post", 1, "slot coverage and provenance at post"}, {"C06.R2@batch|*:item-exec", 1, "exec argument is items[i]"}, {"C06.R4@batch|*:post", 1, "wait before post"},
			{"C06.R4@batch|*:pool-close", 1, "close after wait"}, {"C06.R6@batch|*:post", 1, "post arguments"}, {"C06.R7@batch|*:items", 1, "item list provenance"}, {"C06.R5@batch|*:post", 1, "one chain/submit per iteration"}, {"C06.R9@batch|*:index-in-bounds", 4, "every slice index on the batch paths is provably in bounds"}, {"C06.R1@batch|*:post-empty", 1, "empty lists only for an empty prep list"}, {"C06.R8@*.Exec:calls-once", 2, "function-style exec runs the user's function for every item"}},
		Assumptions: append(append([]string{}, commonAssumptions...), "concurrent writes to distinct slots do not race (Go memory model) and are visible after WaitGroup.Wait (C12 decides the pool's barrier)")})
	reg(&Prop{ID: "C07", Units: []string{"run", "loops", "config", "adapters"}, Technique: "static analysis: path-sensitive per-item typestate + effect analysis over go/ssa",
		Explanation: batchExpl + " C07 decides: in continue mode the item loop is left only through its index test against the list length (no break/return), every iteration/task runs exactly one exec chain unless it observed cancellation, the per-item chain obeys the retry/fallback rules of C02 (re-checked on the per-item function), the per-item path writes no memory shared between items other than its own result slot and boolean constants to the mutex-guarded stop flag, and the slot on failure holds the last attempt's (or the fallback's) error. (R6) the error-handling setters write exactly the mode field, with the constant chosen by their argument. (R7) the exec method of function-style nodes invokes the configured exec function exactly once on every path, whatever the item carries (an error item is still processed, retried and handed to the fallback). (R8) every slice index on the batch paths is provably in bounds; (R2) post is told there are no items only when prep's list is known to be empty.",
		CaseRule:    "an obligation instance is one (abstract path, site) pair; distinct = distinct rule@construct keys",
		Floors: []Floor{{"C07.R1@batch|*:post", 1, "no early exit in continue mode"}, {"C07.R2@batch|*:post", 1, "one chain per item"}, {"C07.R3@batch|*:cb:Exec", 1, "per-item retry rules"}, {"C07.R3@batch|*:cb:ExecFallback", 1, "per-item fallback rules"},
			{"C07.R3@batch|*:budget-test", 1, "per-item budget provenance"}, {"C07.R4@batch|*:shared-write", 1, "effect set of the per-item path"}, {"C07.R5@batch|*:post", 1, "slot value provenance"}, {"C07.R6@*WithBatchErrorHandling:single-field", 3, "the mode setters write the mode"}, {"C07.R8@batch|*:index-in-bounds", 4, "no index panic on the batch paths"}, {"C07.R7@*.Exec:calls-once", 2, "function-style exec runs the user's function for every item"}},
		Assumptions: commonAssumptions})
	reg(&Prop{ID: "C09", Units: []string{"run", "config", "pool"}, Technique: "static analysis: path-sensitive slot-coverage + lock-held typestate over go/ssa",
		Explanation: batchExpl + " C09 decides: (R1) sequential stop mode: no item exec starts after an error outcome was stored; (R2) concurrent stop mode: each task reads the shared stop flag while holding the mutex and executes its item only when it read false, a failing task stores true while holding the mutex, the mutex is released on every task path; (R3) slot coverage: at post every slot of the result list was assigned on every path - the item loop ran to the end of the list, or the current slot was stored and a loop ran over results[i+1:] to its end storing an error result in every slot; (R4) every stored value is the item's own outcome or an error, never a success value for an item that did not run. (R5) the error-handling setters write exactly the mode field, with the constant chosen by their argument. (R6) Submit puts the task on the queue by one blocking send in the caller's goroutine before it returns (no select alternative, no goroutine), so with one worker items start in item order and nothing positioned after the first failure runs before it.",
		CaseRule:    "an obligation instance is one (abstract path, site) pair; distinct = distinct rule@construct keys",
		Floors: []Floor{{"C09.R1@batch|*:item-exec", 1, "stop mode, sequential"}, {"C09.R2@batch|*:item-exec", 1, "flag read before exec"}, {"C09.R2@batch|*:task-exit", 1, "flag set / mutex released at task exit"}, {"C09.R2@batch|*:stop-flag-read", 1, "flag read under mutex"},
			{"C09.R2@batch|*:stop-flag-write", 1, "flag write under mutex"}, {"C09.R3@batch|*:post", 1, "slot coverage"}, {"C09.R4@batch|*:post", 1, "slot provenance"}, {"C09.R5@*WithBatchErrorHandling:single-field", 3, "the mode setters write the mode"}, {"C09.R6@WorkerPool.Submit:return", 1, "tasks enter the queue in submission order"}},
		Assumptions: commonAssumptions})
	reg(&Prop{ID: "C11", Units: []string{"run"}, Technique: "static analysis: path-sensitive context-observation typestate + slot coverage over go/ssa (batch paths)",
		Explanation: batchExpl + " C11 decides: (R1) every per-item exec attempt is preceded, since the previous user callback or the start of the iteration/task, by a context observation taking the not-cancelled edge; (R2) the per-item retry wait selects on ctx.Done(); (R3) on every path each slot of an item that was not executed holds an error result at post (coverage as in C09); (R4) the item phase terminates: the mutex is released on every task path and Wait follows the last Submit before post. Wall-clock promptness is not decided.",
		CaseRule:    "an obligation instance is one (abstract path, site) pair; distinct = distinct rule@construct keys",
		Floors:      []Floor{{"C11.R1@batch|*:cb:Exec", 1, "observation before per-item attempts"}, {"C11.R2@batch|*:wait-select", 1, "interruptible per-item wait"}, {"C11.R3@batch|*:post", 1, "coverage at post"}, {"C11.R4@batch|*", 2, "termination: unlock on all task paths, wait before post"}},
		Assumptions: append(append([]string{}, commonAssumptions...), "which worker holds which item at the instant of cancellation is a schedule question; the structural cause (the observation is made by each task before executing) is what is decided")})
	flowExpl := "Path-sensitive abstract interpretation of (*Flow).Exec with the static call Run(ctx, current, shared) cut into an opaque ChildRun event (Run itself is verified for arbitrary nodes by C01/C02/C04/C05, so induction over nesting applies); the node argument is aliased after each event, which makes the per-step routing rule expressible with finitely many terms and covers cycles, self-loops and repeated runs. Connect, NewFlow, Flow.Prep/Post/Run are explored as separate roots."
	reg(&Prop{ID: "C03", Units: []string{"flow"}, Technique: "static analysis: path-sensitive routing-provenance abstract interpretation + map-effect analysis over go/ssa",
		Explanation: flowExpl + " C03 decides: the first node run is the flow's start field; each further node run is exactly transitions[previous node][its action]; every undecided branch between two child runs depends only on the child's error, the context, and the presence/nil-ness of that two-level lookup; success is returned only when the lookup is known absent or nil; no other call touches nodes; running a flow has no heap effect; Connect stores `to` under (from, action) exactly once on every path, creates the inner table only when absent, deletes nothing and returns its receiver; NewFlow stores its argument and a fresh table; the flow's own prep always hands the store on with a nil error (R8), and neither it nor post keeps state (atomics count as state), so a repeated run starts exactly like the first.",
		CaseRule:    "an obligation instance is one (abstract path, site) pair; distinct = distinct rule@construct keys",
		Floors: []Floor{{"C03.R1@*:child-run", 1, "first node"}, {"C03.R2@*:child-run", 1, "routing step"}, {"C03.R3@*:routing-decision", 1, "routing decisions"}, {"C03.R3@*:success-return", 1, "termination condition"},
			{"C03.R5@*:transition-store", 1, "Connect stores"}, {"C03.R5@*:inner-map-creation", 1, "Connect creates inner table"}, {"C03.R5@*:return", 1, "Connect returns"}, {"C03.R6@*:effect", 4, "effect freedom of Exec/Prep/Post/Run"}, {"C03.R7@NewFlow:*", 2, "NewFlow"}, {"C03.R8@Flow.Prep:return", 1, "entering a flow cannot fail or depend on earlier runs"}},
		Assumptions: append(append([]string{}, commonAssumptions...), "Go map semantics; nodes of unhashable dynamic type panic at Connect (outside the statement)")})
	reg(&Prop{ID: "C10", Units: []string{"flow"}, Technique: "static analysis: path-sensitive value-provenance abstract interpretation over go/ssa",
		Explanation: flowExpl + " C10 decides: Flow.Prep returns its store parameter; every child run receives the store asserted from Flow.Exec's prep value and the flow's context; the success value of Flow.Exec is the last child run's action boxed as Action; Flow.Post returns exactly that action; Flow.Run runs the flow through Run with the caller's context/store and returns its error; no function statically reachable from Run asserts a node to *Flow; NewFlow embeds a BaseNode with the defaults (one attempt, no wait) and keeps its argument itself as start node with a fresh table (R8: a flow passed in is not looked into). Together with C01/C03/C04 this is the flattening argument by induction on nesting depth.",
		CaseRule:    "an obligation instance is one (abstract path, site) pair; distinct = distinct rule@construct keys",
		Floors: []Floor{{"C10.R1@Flow.Prep:return", 1, "prep hands the store through"}, {"C10.R2@*:child-run", 1, "children run on the parent's store"}, {"C10.R3@*:success-return", 1, "last action"}, {"C10.R4@Flow.Post:return", 1, "post returns the action"},
			{"C10.R5@Run:type-tests", 1, "no special-casing"}, {"C10.R6@NewFlow:base-node", 1, "default budget"}, {"C10.R7@Flow.Run:*", 2, "Flow.Run"}, {"C10.R8@NewFlow:*", 2, "a flow given as start node is kept as that node"}},
		Assumptions: commonAssumptions})
	storeExpl := "Every exported method of *SharedStore is explored path-sensitively (callees such as Get inlined) with lock/unlock, field reads, map lookups/updates/deletes/len/range/clear, appends and returns as events."
	reg(&Prop{ID: "C13", Units: []string{"store"}, Technique: "static analysis: path-sensitive lockset / critical-section typestate over go/ssa",
		Explanation: storeExpl + " C13 decides a sufficient condition for linearizability and race freedom: on every path of every method, each access to the map field or to the map it holds happens while the store's own mutex is held (write-locked for any mutation), at most one critical section is entered per operation (callees included, so composite getters stay atomic), lock and unlock are balanced on every path with no nested acquisition, no store method is called while the lock is held, and the internal map never escapes (not returned, stored, or passed to anything but pure copy helpers). Merge and Clear therefore perform their whole update inside one write section. The second half of linearizability - what each atomic section answers equals what the plain map answers - is the per-method effect summary of C14.R1, counted here as C13.R7.",
		CaseRule:    "an obligation instance is one (abstract path, event) pair in one method; distinct = distinct rule@construct keys",
		Floors:      []Floor{{"C13.R1@SharedStore.*:access", 9, "guarded accesses in the nine map operations"}, {"C13.R2@SharedStore.*:lock", 9, "one section per operation"}, {"C13.R3@SharedStore.*:return", 20, "balanced on return, every method"}, {"C13.R6@SharedStore.*:classified", 20, "every exported method analysed"}, {"C13.R7@SharedStore.*:effect-summary", 9, "each atomic section answers as the plain map would"}},
		Assumptions: append(append([]string{}, commonAssumptions...), "races on user values stored in the store are outside the property")})
	reg(&Prop{ID: "C14", Units: []string{"store"}, Technique: "static analysis: per-method map-effect summaries compared with a specification table",
		Explanation: storeExpl + " C14 decides: the map-effect summary of each direct method equals the map operation it stands for (Set: one store of (key,value); Get: both results of one lookup; Has: the presence bit, not a nil test; Delete: one delete of key; Len: len; Clear: one replace-by-fresh-map or clear; Merge: nil does nothing, otherwise every entry of the argument is copied unconditionally inside the range loop which runs to exhaustion; Keys/GetAll: no mutation, a container made in the call receives every key/entry exactly once per iteration); every store to the map field stores a map made in the call; the internal map never escapes; NewSharedStore starts with a fresh map. By induction over operation sequences the store equals the model map.",
		CaseRule:    "an obligation instance is one abstract path of one method; distinct = distinct rule@construct keys",
		Floors:      []Floor{{"C14.R1@SharedStore.*:effect-summary", 20, "effect summaries of all methods"}, {"C14.R2@*", 1, "map field only holds fresh maps"}},
		Assumptions: append(append([]string{}, commonAssumptions...), "Go's built-in map is the reference; deep aliasing of stored values is outside the property")})
	poolExpl := "NewWorkerPool, the worker method it starts, Submit, the wrapper closure Submit enqueues, Wait and Close are each explored path-sensitively with sync/channel operations as events; a whole-package scan bounds who may start goroutines and who may touch the pool's fields and task channels."
	reg(&Prop{ID: "C12", Units: []string{"pool"}, Technique: "static analysis: path-sensitive typestate over sync/channel events of the pool's functions + who-may-touch scan",
		Explanation: poolExpl + " C12 decides: Submit registers exactly one pending task on the pool's WaitGroup before a blocking send (an ssa.Send, not a select case) of a wrapper closure; the wrapper calls the captured task exactly once on every path and signals Done on the same WaitGroup exactly once after it (deferred before the call or post-dominating it); only the worker receives from the task channel and it calls each received function exactly once before receiving again; Wait reaches wg.Wait on the pool's WaitGroup on every path; Close closes at least one pool channel (each once) on which the worker's blocking point listens with an edge to return; no pool field is touched outside the pool's own functions.",
		CaseRule:    "an obligation instance is one (abstract path, event) pair in one pool function; distinct = distinct rule@construct keys",
		Floors: []Floor{{"C12.R1@WorkerPool.Submit:wg-add", 1, "Add before send"}, {"C12.R2@WorkerPool.Submit:enqueue", 1, "blocking send"}, {"C12.R3@WorkerPool.Submit.wrapper:return", 1, "wrapper runs task once, Done once"},
			{"C12.R3@WorkerPool.Submit.wrapper:done", 1, "Done on the pool's WaitGroup"}, {"C12.R4@WorkerPool.worker:return", 1, "worker exits on close/done"}, {"C12.R5@WorkerPool.Wait:*", 2, "Wait"}, {"C12.R6@WorkerPool.Close:*", 3, "Close"}, {"C12.R7@package:*", 1, "who may touch"}},
		Assumptions: append(append([]string{}, commonAssumptions...), "visibility of task effects after Wait is the WaitGroup happens-before contract; Submit after Close is outside the property")})
	reg(&Prop{ID: "C08", Units: []string{"pool", "run", "config"}, Technique: "static analysis: trip-count analysis of the spawn loop + path-sensitive typestate of worker and batch dispatch",
		Explanation: poolExpl + " " + batchExpl + " C08 decides: the only go statement of the package is in the pool constructor and starts the worker method on the new pool; its loop runs exactly max(1, workers) times (scalar-evolution arithmetic plus bound provenance: `workers` under workers>0, the constant 1 otherwise), one start per iteration; the worker's only blocking point is the receive on the pool's channels and it runs each received task synchronously, once, with no goroutine of its own; only pool functions send/receive on task channels; on the batch paths the pool is sized by the configured concurrency read from the node being run, items are executed only inside submitted tasks when concurrency>0 and only by the in-order sequential loop (index 0, step 1) when concurrency<=0. Hence at most c executions in flight and exactly c independent workers. (R7) every form of the concurrency setter stores its argument unchanged in the field GetBatchConcurrency returns.",
		CaseRule:    "an obligation instance is one (abstract path, event) pair or one static loop/package scan; distinct = distinct rule@construct keys",
		Floors: []Floor{{"C08.R1@package:go-statements", 1, "single go statement"}, {"C08.R1@NewWorkerPool:spawn", 1, "worker start"}, {"C08.R1@NewWorkerPool:spawn-loop-count", 1, "spawn loop arithmetic"}, {"C08.R1@NewWorkerPool:spawn-bound", 1, "bound provenance (workers>0 and workers<=0)"},
			{"C08.R2@WorkerPool.worker:task-call", 1, "synchronous single call"}, {"C08.R2@WorkerPool.worker:receive", 1, "blocking receive"}, {"C08.R3@package:pool-field-access", 1, "channel ownership"},
			{"C08.R4@batch|*:pool-size", 1, "pool sized by configuration"}, {"C08.R4@batch|*:item-exec", 1, "exec inside tasks"}, {"C08.R5@batch|*:item-exec", 1, "sequential dispatch"}, {"C08.R6@batch|*:config-read", 1, "configuration read from the node"}, {"C08.R7@*WithBatchConcurrency:stores-argument", 3, "every form of the concurrency setter stores its argument"}},
		Assumptions: append(append([]string{}, commonAssumptions...), "that the Go scheduler actually runs the c workers in parallel and that blocked user tasks make progress is not decided")})
	reg(&Prop{ID: "C15", Units: []string{"access"}, Technique: "static analysis: may-panic instruction scan + path-sensitive reflect-precondition check + decision-table extraction compared with the documented table",
		Explanation: "Every typed accessor of Result and SharedStore (plain, Or, Must, Get, GetOr forms of String/Int/Float64/Bool/Slice/Map), ToSlice, As and the small Result helpers are analysed. (R1) totality: no reachable instruction of a non-Must accessor can panic - no unchecked type assertion, no ==/!= between two interface values, no unguarded index, no explicit panic - and every reflect call's precondition (frozen table) is implied by the path facts. (R2-R5) the accessor is explored path-sensitively with Get/ToSlice summarised as deterministic calls; for every case of the documented decision table (key absent, nil, each of the 12 numeric kinds, string, bool, []any, map[string]any, other slice kinds, other types incl. uintptr/complex) the paths consistent with that case must succeed/fail as documented and return Go's conversion of the asserted value (or the default/zero/panic of the variant); paths outside the table are violations. Store and result accessors are checked against the same table, so they agree. (R6) ToSlice: nil to empty non-nil slice, []any to itself, every other slice to an index-preserving complete copy, anything else to a one-element slice. (R8) NewResult / R / NewErrorResult store exactly their argument (no flattening or conversion of any dynamic type), so \"the value\" the accessors describe is the value the caller passed.",
		CaseRule:    "an obligation instance is one (accessor, table case, abstract path) triple or one static scan; distinct = distinct rule@construct keys",
		Floors: []Floor{{"C15.R1@*:may-panic", 30, "may-panic scan of every accessor"}, {"C15.R4@*:table", 30, "decision tables of all accessors"}, {"C15.R3@SharedStore.*:table", 12, "store accessors"}, {"C15.R5@*Slice*:table", 5, "slice family"},
			{"C15.R6@ToSlice:*", 4, "ToSlice cases"}, {"C15.R1@ToSlice:*", 4, "ToSlice reflect preconditions"}, {"C15.R8@*:constructor", 3, "constructors hold exactly their argument"}},
		Assumptions: append(append([]string{}, commonAssumptions...), "numeric results of Go's own conversions are the specification; reflect and type-switch semantics are trusted")})
	reg(&Prop{ID: "C16", Units: []string{"bind"}, Technique: "static analysis: may-panic scan + path-sensitive reflect-precondition and Marshal->Unmarshal provenance check + sibling outcome comparison",
		Explanation: "Both Bind implementations are explored path-sensitively (Get summarised as a deterministic call, reflect and json.Marshal as deterministic functions of their arguments). (R1) no instruction can panic and every reflect call's precondition (Kind()==Ptr before IsNil/Elem/Type().Elem(), non-nil and identical types before Set) is implied by the path facts. (R2) json.Marshal is applied to the bound value; json.Unmarshal receives exactly Marshal's bytes and the caller's destination, only after Marshal is known to have succeeded; success is returned only after the identity copy or a successful decode; marshal/unmarshal errors are returned wrapped. (R3) a missing key, a nil result value, a nil or non-pointer destination end in an error return before any binding. (R4) Bind has no write effect other than through the destination. (R5) the identity copy is taken exactly under TypeOf(value) == element type of dest and sets *dest to the value; the JSON path only when the types are known to differ; both Binds have the same set of outcome classes. (R6) the value a Result binds is exactly the argument of its constructor (NewResult / R / NewErrorResult are explored: no unwrapping of any dynamic type).",
		CaseRule:    "an obligation instance is one (abstract path, event) pair in one Bind; distinct = distinct rule@construct keys",
		Floors: []Floor{{"C16.R1@*.Bind:may-panic", 2, "may-panic scan of both Binds"}, {"C16.R1@*.Bind:(reflect.Value).Set", 2, "Set preconditions"}, {"C16.R1@*.Bind:(reflect.Value).IsNil", 2, "IsNil preconditions"}, {"C16.R2@*.Bind:unmarshal", 2, "Marshal->Unmarshal provenance"},
			{"C16.R2@*.Bind:success-return", 2, "success only after binding"}, {"C16.R2@*.Bind:error-return", 2, "json errors returned"}, {"C16.R3@*.Bind:invalid-input-return", 2, "invalid inputs"}, {"C16.R5@*.Bind:fast-path", 2, "identity copy condition"}, {"C16.R5@Bind:siblings", 1, "sibling agreement"}, {"C16.R6@*:constructor", 3, "the bound value is the constructor's argument"}},
		Assumptions: append(append([]string{}, commonAssumptions...), "encoding/json is the reference for the round trip (cyclic data, panicking MarshalJSON are outside)")})
	reg(&Prop{ID: "C17", Units: []string{"adapters", "run"}, Technique: "static analysis: compositional symbolic exploration of adapter pairs (producer output substituted into the consumer) + wrapper summaries vs. specification",
		Explanation: "The function-style node adapters are decided compositionally. For each producer (CustomNode.Prep / Exec / ExecFallback) every success path is explored and its output term recorded together with the facts about the Result its user function returned; each consumer (CustomNode.Exec / Post) is then explored with that output bound to its parameter and those facts (plus A5: payloads are not themselves Results) preloaded, and the Result its user function receives is compared with what the previous function returned: identical for an error Result from exec (never re-wrapped, never stripped), otherwise a Result whose value is exactly the returned value. A batch item (already a Result) must reach the exec function unwrapped. On the batch paths of Run a result slot may receive a freshly wrapped exec outcome only on a path where the outcome is known not to be a Result already (C17.R1 at batch post). The Any-style wrappers of all three construction forms (option, NodeBuilder method, BatchNodeBuilder method) are located as closures stored into the function fields and checked against one specification (arguments: context/store unchanged, Value() of each Result; results: the user's value wrapped exactly once, the user's error itself), which also makes the forms interchangeable. The phase methods of NodeBuilder / BatchNodeBuilder / BatchNode that delegate to the embedded node return that node's results as the very same terms (C17.R5: no unwrapping, no re-wrapping on the way out).",
		CaseRule:    "an obligation instance is one (producer path, consumer path, call) triple or one wrapper path; distinct = distinct rule@construct keys",
		Floors: []Floor{{"C17.R1@prep->exec", 1, "prep value reaches exec"}, {"C17.R1@prep->post", 1, "prep value reaches post"}, {"C17.R1@exec->post", 1, "exec value and error result reach post"}, {"C17.R2@exec->post", 1, "error state preserved"}, {"C17.R2@CustomNode.Exec:producer", 1, "exec distinguishes error results"}, {"C17.R1@fallback->post", 1, "fallback value reaches post"},
			{"C17.R1@item->exec", 1, "batch items unwrapped"}, {"C17.R1@batch|*:post", 1, "batch result slots: exec outcomes wrapped only when they are not Results"}, {"C17.R3@*:wrapper", 7, "seven Any-style wrappers"}, {"C17.R5@*:transparent", 6, "builder phase methods return the embedded node's results unchanged"}},
		Assumptions: append(append([]string{}, commonAssumptions...), "A5: user payloads are not themselves flyt.Result values except where the framework produces them (batch items, error results)")})
	reg(&Prop{ID: "C19", Units: []string{"config", "pool", "run", "adapters"}, Technique: "static analysis: setter effect summaries compared across construction forms + constructor option-dispatch/apply-loop typestate + default/getter summaries",
		Explanation: "Every setting has one effect summary (field written := function of the argument, per path condition on the argument), extracted by exploring the option's setter closure and the NodeBuilder / BatchNodeBuilder methods of the same name; forms with the same parameter type must have equal summaries, each path writes exactly one field, builder methods return their receiver. The constructors NewBaseNode / NewNode / NewBatchNode are explored with a monitor for the classification loop (each argument visited in ascending order and collected once under its established type) and the application loops (each collected list applied element by element, once, in ascending order, every collected list applied); the option kinds NewNode and NewBatchNode accept must coincide; base options and function options write disjoint fields. Defaults: a node built from no options has (1 attempt, 0 wait, concurrency 0, mode unset, no functions); getters return their field, the unset mode reads as continue; the mode setters store exactly the strings continue/stop; a pool size <= 0 becomes 1 (C08.R1); behaviour reads the configuration through the getters of the node being run (C02.R1, C08.R4/R6). (R8) every function-typed field of CustomNode / BatchNode is called by a phase method of that type, and on every path where it is known to be set it is the one that is called, exactly once.",
		CaseRule:    "an obligation instance is one setter form, one pair of forms, one constructor path or one getter path; distinct = distinct rule@construct keys",
		Floors: []Floor{{"C19.R1@With*:*", 10, "pairs of equivalent setter forms"}, {"C19.R2@*:single-field", 25, "single-field setters"}, {"C19.R3@*:application", 3, "constructor application loops"}, {"C19.R4@*", 1, "accepted option kinds agree"},
			{"C19.R5@*:defaults", 3, "defaults of the three constructors"}, {"C19.R5@BaseNode.*:identity", 3, "getters"}, {"C19.R6@*:mode-constants", 3, "mode constants in setters"}, {"C19.R6@*:default-mode", 1, "default mode"}, {"C19.R5@NewWorkerPool:spawn-bound", 1, "pool size <= 0 means one worker"}, {"C19.R5@NewWorkerPool:make-chan", 1, "constructor does not panic for non-positive sizes"}, {"C19.R7@*", 3, "behaviour reads the getters of the node being run"}, {"C19.R8@*:used", 6, "every configurable function field is called by a phase method"}},
		Assumptions: commonAssumptions})
	reg(&Prop{ID: "C04", Units: []string{"run", "flow", "adapters"}, Technique: "static analysis: path-sensitive error-provenance (wrap-chain) abstract interpretation over go/ssa",
		Explanation: lifeExpl + " C04 decides on Run (single and batch paths): nil error iff the path ended in a successful post; every error return that follows a failing callback wraps (fmt.Errorf %w / errors.Join / identity) that callback's own error term, and no further phase callback is invoked after it.",
		CaseRule:    "an obligation instance is one (abstract path, return or call site) pair; distinct = distinct rule@construct keys",
		Floors:      []Floor{{"C04.R1@single|*:return", 1, "success returns, single"}, {"C04.R2@single|*:return", 3, "error returns (prep, exec, post), single"}, {"C04.R2@batch|*:return", 2, "error returns, batch"}, {"C04.R3@*", 3, "fail-stop checks"}, {"C04.R4@*:child-run", 1, "flow stops after a failed node"}, {"C04.R4@*:error-return", 1, "flow returns the child's error"}, {"C04.R6@*", 5, "library adapters and defaults are transparent"}},
		Assumptions: commonAssumptions})
	reg(&Prop{ID: "C05", Units: []string{"run", "flow"}, Technique: "static analysis: path-sensitive context-observation typestate over go/ssa",
		Explanation: lifeExpl + " C05 decides on the single-node path of Run: a context observation (ctx.Err()==nil edge, or a select with ctx.Done() taking another case) lies between the previous user callback (or the start) and prep / every exec attempt; every path that observed cancellation invokes no further callback and returns a non-nil error wrapping a ctx.Err() result; the retry wait selects on ctx.Done().",
		CaseRule:    "an obligation instance is one (abstract path, call/return site) pair; distinct = distinct rule@construct keys",
		Floors:      []Floor{{"C05.R1@single|*:cb:Prep", 1, "observation before prep"}, {"C05.R1@single|*:cb:Exec", 1, "observation before each attempt"}, {"C05.R2@single|*:return", 3, "returns after cancellation"}, {"C05.R3@single|*", 1, "interruptible wait"}, {"C05.R1@*:child-run", 1, "observation before each node of a flow"}, {"C05.R2@*:cancel-return", 1, "cancelled flow returns ctx error"}},
		Assumptions: append(append([]string{}, commonAssumptions...), "select fairness when timer and Done are ready together is not decided (treated as observed)")})
	reg(&Prop{ID: "C18", Units: []string{"run"}, Technique: "static analysis: path-sensitive return-predicate (non-empty fact) over go/ssa",
		Explanation: lifeExpl + " C18 decides: at every nil-error return of Run (single node, batch with items, empty batch) the action term is a non-empty constant or carries the fact != \"\" on that path.",
		CaseRule:    "an obligation instance is one success-return instance on an abstract path; distinct = distinct return roles",
		Floors:      []Floor{{"C18.R1@single|*:success-return", 1, "single-node success return"}, {"C18.R1@batch|*:success-return", 1, "batch success return"}, {"C18.R1@batch-empty|*:success-return", 1, "empty-batch success return"}},
		Assumptions: commonAssumptions})
}
