package rules

import (
	"fmt"
	"go/types"
	"sort"
	"sync"

	"flytsa/internal/eng"
	"flytsa/internal/load"

	"golang.org/x/tools/go/ssa"
)

// Stats of the explorations behind a unit.
type Stats struct {
	Runs        int      `json:"explorations"`
	States      int      `json:"abstract_states"`
	Transitions int      `json:"transitions"`
	Events      int      `json:"events"`
	Returns     int      `json:"return_instances"`
	Forks       int      `json:"forks"`
	Functions   []string `json:"functions_analysed"`
	Problems    []string `json:"engine_problems,omitempty"`
	fnset       map[string]bool
}

func (s *Stats) add(e *eng.Engine, root *ssa.Function) {
	s.Runs++
	s.States += e.States
	s.Transitions += e.Trans
	s.Events += e.Events
	s.Returns += len(e.Returns)
	s.Forks += e.Forks
	if s.fnset == nil {
		s.fnset = map[string]bool{}
	}
	s.fnset[root.String()] = true
	for f := range e.Inlined {
		s.fnset[f.String()] = true
	}
	s.Functions = s.Functions[:0]
	for f := range s.fnset {
		s.Functions = append(s.Functions, f)
	}
	sort.Strings(s.Functions)
	for _, p := range e.SortedProblems() {
		msg := fmt.Sprintf("%s: %s", p.Kind, p.Msg)
		dup := false
		for _, q := range s.Problems {
			if q == msg {
				dup = true
			}
		}
		if !dup {
			s.Problems = append(s.Problems, msg)
		}
	}
}

// Merge adds other into s.
func (s *Stats) Merge(o *Stats) {
	s.Runs += o.Runs
	s.States += o.States
	s.Transitions += o.Transitions
	s.Events += o.Events
	s.Returns += o.Returns
	s.Forks += o.Forks
	if s.fnset == nil {
		s.fnset = map[string]bool{}
	}
	for f := range o.fnset {
		s.fnset[f] = true
	}
	s.Functions = s.Functions[:0]
	for f := range s.fnset {
		s.Functions = append(s.Functions, f)
	}
	sort.Strings(s.Functions)
	for _, p := range o.Problems {
		dup := false
		for _, q := range s.Problems {
			if q == p {
				dup = true
			}
		}
		if !dup {
			s.Problems = append(s.Problems, p)
		}
	}
}

// BatchCase is one cell of the global case split on immutable inputs: the batch
// configuration, the dynamic type of the node handed to Run and the dynamic type of
// what its prep returned. Every dimension is an exhaustive partition of the inputs, so
// the union of the cells covers every run; a cell only prunes branches its assumption
// decides (a test the assumption does not decide is still explored both ways).
type BatchCase struct {
	Stop bool // error handling == "stop"
	Conc bool // concurrency > 0
	Node int  // 0: *BatchNode, 1: *BatchNodeBuilder, 2: any other node type
	Prep int  // -1: not split, 0: []Result, 1: []any, 2: any other type
}

func (b BatchCase) String() string {
	m, c := "continue", "sequential"
	if b.Stop {
		m = "stop"
	}
	if b.Conc {
		c = "concurrent"
	}
	return m + "/" + c + "/" + []string{"*BatchNode", "*BatchNodeBuilder", "other node"}[b.Node] + "/" + []string{"any prep", "[]Result", "[]any", "other prep"}[b.Prep+1]
}

// AllBatchCases enumerates the split.
func AllBatchCases() []BatchCase {
	var out []BatchCase
	for _, cfg := range [][2]bool{{false, false}, {false, true}, {true, false}, {true, true}} {
		for node := 0; node < 3; node++ {
			if node == 2 {
				out = append(out, BatchCase{cfg[0], cfg[1], node, -1})
				continue
			}
			for prep := 0; prep < 3; prep++ {
				out = append(out, BatchCase{cfg[0], cfg[1], node, prep})
			}
		}
	}
	return out
}

// budgetLowerBound implements assumption A4 (retry budget N >= 1).
func budgetLowerBound(e **eng.Engine) func(t *eng.Term) (int64, bool) {
	return func(t *eng.Term) (int64, bool) {
		if t.K == eng.KEv && t.I == 0 && *e != nil {
			switch (*e).SiteClass[t.S] {
			case "cb:GetMaxRetries", "cfg:GetMaxRetries":
				return 1, true
			}
		}
		return 0, false
	}
}

// caseAssumer applies the case split right after the configuration is read.
func caseAssumer(r *Roles, bc BatchCase) func(c *eng.Ctx, ev *eng.Event) bool {
	return func(c *eng.Ctx, ev *eng.Event) bool {
		if ev.Kind != "call" || len(ev.Results) == 0 {
			return true
		}
		switch ev.Class {
		case "cb:Prep":
			if bc.Prep < 0 || r.Result == nil {
				return true
			}
			ok := c.E.Assume(c.St.Facts(), eng.TAOk(ev.Results[0], types.NewSlice(r.Result)), bc.Prep == 0)
			if ok && bc.Prep != 0 {
				ok = c.E.Assume(c.St.Facts(), eng.TAOk(ev.Results[0], types.NewSlice(types.Universe.Lookup("any").Type())), bc.Prep == 1)
			}
			return ok
		case "cfg:GetBatchErrorHandling":
			return c.E.Assume(c.St.Facts(), eng.Bin("==", ev.Results[0], eng.ConstString("stop")), bc.Stop)
		case "cfg:GetBatchConcurrency":
			return c.E.Assume(c.St.Facts(), eng.Bin("<", eng.ConstInt(0), ev.Results[0]), bc.Conc)
		}
		return true
	}
}

// nodeKindAssumer fixes the dynamic type of Run's node parameter for the cell.
func nodeKindAssumer(r *Roles, bc BatchCase) func(e *eng.Engine, f *eng.Facts) {
	return func(e *eng.Engine, f *eng.Facts) {
		if r.FnRun == nil || len(r.FnRun.Params) < 2 || r.BatchNode == nil || r.BatchNodeBuilder == nil {
			return
		}
		var node *eng.Term
		for i, prm := range r.FnRun.Params {
			if types.Identical(prm.Type(), r.Node) {
				node = eng.Param(i, prm.Name())
			}
		}
		if node == nil {
			return
		}
		e.Assume(f, eng.TAOk(node, types.NewPointer(r.BatchNode)), bc.Node == 0)
		if bc.Node != 0 {
			e.Assume(f, eng.TAOk(node, types.NewPointer(r.BatchNodeBuilder)), bc.Node == 1)
		}
	}
}

// DebugStates prints per-block state counts.
var DebugStates bool

// DebugFn / DebugBlock select a block whose state keys are printed.
var (
	DebugFn    string
	DebugBlock int
)

// RunResult is the outcome of analysing the root Run.
type RunResult struct {
	Col   *Col
	Stats Stats
}

// AnalyzeRun explores Run under every batch case with the lifecycle and batch monitors.
func AnalyzeRun(p *load.Program, r *Roles, depth int) *RunResult {
	res := &RunResult{Col: NewCol()}
	if r.FnRun == nil {
		res.Col.Unproven("C01.R0", "Run", p.Position(0), "function Run not found", nil)
		return res
	}
	type out struct {
		col *Col
		e   *eng.Engine
		bc  BatchCase
	}
	cases := AllBatchCases()
	outs := make([]out, len(cases))
	var wg sync.WaitGroup
	var shared int64
	sem := make(chan struct{}, 16)
	for i, bc := range cases {
		wg.Add(1)
		go func(i int, bc BatchCase) {
			defer wg.Done()
			sem <- struct{}{}
			defer func() { <-sem }()
			col := NewCol()
			var e *eng.Engine
			life := NewLifeMon(r, col)
			batch := NewBatchMon(r, col, bc, life)
			cfg := eng.Config{
				Prog: p.Prog, Pkg: p.SSA, Fset: p.Fset, Root: r.FnRun, MaxDepth: depth,
				Classify:         r.Classifier(Mode{SummarisePool: true, SummariseCfg: true, SummariseToSlice: true}),
				IntLowerBound:    budgetLowerBound(&e),
				AfterEvent:       caseAssumer(r, bc),
				InitFacts:        nodeKindAssumer(r, bc),
				Monitors:         []eng.Monitor{life, batch},
				DropReturnStates: true, IndexEvents: true,
				MaxStates: 100000, SharedStates: &shared, SharedMax: 1200000,
				DebugFn: DebugFn, DebugBlock: DebugBlock,
			}
			e = eng.New(cfg)
			e.Run()
			outs[i] = out{col, e, bc}
		}(i, bc)
	}
	wg.Wait()
	for _, o := range outs {
		e := o.e
		res.Col.Merge(o.col)
		res.Stats.add(e, r.FnRun)
		if DebugStates {
			type kv struct {
				k string
				v int
			}
			var kvs []kv
			for k, v := range e.StatesAt {
				kvs = append(kvs, kv{k, v})
			}
			sort.Slice(kvs, func(i, j int) bool { return kvs[i].v > kvs[j].v })
			fmt.Printf("case %s: states=%d\n", o.bc, e.States)
			for i, x := range kvs {
				if i < 12 {
					fmt.Printf("   %-40s %d\n", x.k, x.v)
				}
			}
		}
		for _, pr := range e.SortedProblems() {
			res.Col.Unproven("C01.R0", "engine:"+pr.Kind, pr.Pos, pr.Msg, nil)
		}
	}
	// a recovered panic continues the run on a path the exploration does not model (user
	// callbacks are assumed not to panic): with a recover in the lifecycle the verdicts of
	// this unit would be about a different program, so it is reported as undecided
	seenFn := map[*ssa.Function]bool{r.FnRun: true}
	for _, o := range outs {
		for f := range o.e.Inlined {
			seenFn[f] = true
		}
	}
	var visit func(f *ssa.Function)
	reported := map[string]bool{}
	visit = func(f *ssa.Function) {
		for _, b := range f.Blocks {
			for _, ins := range b.Instrs {
				if call, ok := ins.(ssa.CallInstruction); ok {
					if bi, ok := call.Common().Value.(*ssa.Builtin); ok && bi.Name() == "recover" {
						msg := "recover: " + funcLabel(f) + " (" + posStr(p.Position(ins.Pos())) + ") recovers from panics: the paths that continue after a recovered panic are not modelled"
						if !reported[msg] {
							reported[msg] = true
							res.Stats.Problems = append(res.Stats.Problems, msg)
							res.Col.Unproven("C01.R0", "engine:recover", p.Position(ins.Pos()), msg, nil)
						}
					}
				}
			}
		}
		for _, a := range f.AnonFuncs {
			visit(a)
		}
	}
	for f := range seenFn {
		if f != nil {
			visit(f)
		}
	}
	// deferred calls of named in-package functions are followed too
	for f := range seenFn {
		if f == nil {
			continue
		}
		for _, b := range f.Blocks {
			for _, ins := range b.Instrs {
				if d, ok := ins.(*ssa.Defer); ok {
					if g := d.Call.StaticCallee(); g != nil && g.Pkg == f.Pkg && !seenFn[g] {
						visit(g)
					}
				}
			}
		}
	}
	return res
}
