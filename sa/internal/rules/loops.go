package rules

import (
	"fmt"
	"go/constant"
	"go/token"
	"go/types"

	"flytsa/internal/eng"
	"flytsa/internal/load"

	"golang.org/x/tools/go/ssa"
)

// affine value over at most one SSA symbol: sym + c (sym nil for constants).
type aff struct {
	sym ssa.Value
	c   int64
	ok  bool
}

func affOf(v ssa.Value, depth int) aff {
	if depth > 8 {
		return aff{}
	}
	switch x := v.(type) {
	case *ssa.Const:
		if x.Value != nil && x.Value.Kind() == constant.Int {
			if i, ok := constant.Int64Val(x.Value); ok {
				return aff{nil, i, true}
			}
		}
		return aff{}
	case *ssa.BinOp:
		a, b := affOf(x.X, depth+1), affOf(x.Y, depth+1)
		if !a.ok || !b.ok {
			return aff{v, 0, true}
		}
		switch x.Op {
		case token.ADD:
			if b.sym == nil {
				return aff{a.sym, a.c + b.c, true}
			}
			if a.sym == nil {
				return aff{b.sym, a.c + b.c, true}
			}
		case token.SUB:
			if b.sym == nil {
				return aff{a.sym, a.c - b.c, true}
			}
			if a.sym == b.sym {
				return aff{nil, a.c - b.c, true}
			}
		}
		return aff{v, 0, true}
	case *ssa.Convert:
		return affOf(x.X, depth+1)
	case *ssa.ChangeType:
		return affOf(x.X, depth+1)
	}
	return aff{v, 0, true}
}

// RetryLoop is the static summary of a loop that directly contains an exec attempt.
type RetryLoop struct {
	Fn     *ssa.Function
	Header *ssa.BasicBlock
	Count  string // human-readable trip count
	Budget ssa.Value
}

// AnalyzeRetryLoops decides C02.R1 structurally: every loop that directly
// contains an invoke of the exec callback performs, when it is left through
// its induction-variable test, exactly V attempts where V is the one symbolic
// value appearing in that test (the monitors separately establish that V is
// the node's retry budget, or the constant 1 for a node without retry settings).
func AnalyzeRetryLoops(p *load.Program, r *Roles) *UnitResult {
	col := NewCol()
	res := &UnitResult{Col: col}
	e := eng.New(eng.Config{Prog: p.Prog, Pkg: p.SSA, Fset: p.Fset, Root: r.FnRun})
	nLoops := 0
	for _, fn := range p.AllFunctions() {
		if len(fn.Blocks) == 0 {
			continue
		}
		fi := e.InfoOf(fn)
		for _, l := range fi.Loops {
			var execBlk *ssa.BasicBlock
			var execCall *ssa.Call
			for b := range l.Blocks {
				for _, ins := range b.Instrs {
					if call, ok := ins.(*ssa.Call); ok && call.Common().IsInvoke() && r.CallbackName(call.Common().Method) == "Exec" {
						// innermost loop only
						if fi.LoopOf(b) == l {
							execBlk, execCall = b, call
						}
					}
				}
			}
			if execBlk == nil {
				continue
			}
			nLoops++
			res.Stats.fnset = addFn(res.Stats.fnset, fn.String())
			con := funcLabel(fn) + ":retry-loop"
			pos := p.Position(execCall.Pos())
			msg, ok := retryLoopCount(fi, l, execBlk)
			if ok {
				col.Check("C02.R1", con, true, pos, "", nil)
			} else {
				col.Check("C02.R1", con, false, pos, msg, nil)
			}
		}
	}
	res.Stats.Runs = 1
	res.Stats.States = nLoops
	for f := range res.Stats.fnset {
		res.Stats.Functions = append(res.Stats.Functions, f)
	}
	return res
}

func addFn(m map[string]bool, f string) map[string]bool {
	if m == nil {
		m = map[string]bool{}
	}
	m[f] = true
	return m
}

// retryLoopCount checks that, for every attempt number j >= 1, the loop's IV
// test evaluated after attempt j is equivalent to j < V for a single symbol V.
func retryLoopCount(fi *eng.FuncInfo, l *eng.Loop, execBlk *ssa.BasicBlock) (string, bool) {
	// induction variables: integer header phis whose back-edge operands are phi +/- the same constant
	type iv struct {
		phi  *ssa.Phi
		init aff
		step int64
	}
	var ivs []iv
	for _, ins := range l.Header.Instrs {
		phi, ok := ins.(*ssa.Phi)
		if !ok {
			break
		}
		if !isInt(phi.Type()) {
			continue
		}
		var init *aff
		step := int64(0)
		good := true
		for i, pred := range l.Header.Preds {
			op := phi.Edges[i]
			if l.Blocks[pred] { // back edge
				a := affOf(op, 0)
				if !a.ok || a.sym != ssa.Value(phi) || a.c == 0 {
					good = false
					break
				}
				if step != 0 && step != a.c {
					good = false
					break
				}
				step = a.c
			} else {
				a := affOf(op, 0)
				if !a.ok {
					good = false
					break
				}
				if init != nil && *init != a {
					good = false
					break
				}
				init = &a
			}
		}
		if good && init != nil && step != 0 {
			ivs = append(ivs, iv{phi, *init, step})
		}
	}
	if len(ivs) == 0 {
		return "no induction variable with a constant step found in the loop containing the exec attempt (an extra or conditional increment breaks the budget)", false
	}
	// IV exit tests inside the loop
	tested := 0
	for b := range l.Blocks {
		ifi, ok := b.Instrs[len(b.Instrs)-1].(*ssa.If)
		if !ok {
			continue
		}
		exit := -1
		for i, s := range b.Succs {
			if !l.Blocks[s] {
				exit = i
			}
		}
		if exit < 0 {
			continue
		}
		bin, ok := ifi.Cond.(*ssa.BinOp)
		if !ok {
			continue
		}
		x, y := affOf(bin.X, 0), affOf(bin.Y, 0)
		var v *iv
		ivLeft := false
		for i := range ivs {
			if x.ok && x.sym == ssa.Value(ivs[i].phi) {
				v, ivLeft = &ivs[i], true
			} else if y.ok && y.sym == ssa.Value(ivs[i].phi) {
				v, ivLeft = &ivs[i], false
			}
		}
		if v == nil {
			continue // not an IV test (success break, cancellation): judged by the path-sensitive rules
		}
		tested++
		ivOp, bound := x, y
		op := bin.Op
		if !ivLeft {
			ivOp, bound = y, x
			// mirror the relation so that the IV operand is on the left
			switch op {
			case token.LSS:
				op = token.GTR
			case token.GTR:
				op = token.LSS
			case token.LEQ:
				op = token.GEQ
			case token.GEQ:
				op = token.LEQ
			}
		}
		// cond true continues or exits?
		continueOnTrue := exit == 1
		if !continueOnTrue {
			// negate the relation
			switch op {
			case token.LSS:
				op = token.GEQ
			case token.GTR:
				op = token.LEQ
			case token.LEQ:
				op = token.GTR
			case token.GEQ:
				op = token.LSS
			case token.NEQ:
				op = token.EQL
			case token.EQL:
				op = token.NEQ
			}
		}
		if op == token.NEQ {
			if v.step > 0 {
				op = token.LSS
			} else {
				op = token.GTR
			}
		}
		if v.step != 1 && v.step != -1 {
			return fmt.Sprintf("the attempt counter advances by %d per iteration", v.step), false
		}
		// position of the test relative to the attempt: top (test dominates exec) or bottom (exec dominates test)
		top := b.Dominates(execBlk) && b != execBlk
		bottom := execBlk.Dominates(b)
		if top == bottom {
			return "cannot place the budget test before or after the exec attempt", false
		}
		// operand value after j attempts: init + step*j + off (top) or init + step*(j-1) + off (bottom)
		off := ivOp.c
		adj := int64(0)
		if bottom {
			adj = -v.step
		}
		// continue iff (init + step*j + off + adj) REL bound  must be  j < V
		// ascending, "<":  j < bound - init - off - adj          "<=": + 1
		// descending, ">": j < init + off + adj - bound          ">=": + 1
		var lim aff
		switch {
		case v.step == 1 && (op == token.LSS || op == token.LEQ):
			lim = subAff(bound, aff{v.init.sym, v.init.c + off + adj, true})
			if op == token.LEQ {
				lim.c++
			}
		case v.step == -1 && (op == token.GTR || op == token.GEQ):
			lim = subAff(aff{v.init.sym, v.init.c + off + adj, true}, bound)
			if op == token.GEQ {
				lim.c++
			}
		default:
			return "the budget test does not bound the attempt counter in its direction of travel", false
		}
		if !lim.ok {
			return "the number of attempts is not an affine function of a single budget value", false
		}
		if lim.sym == nil {
			return fmt.Sprintf("the loop performs a constant number of attempts (%d) independent of the node's budget", lim.c), false
		}
		if lim.c != 0 {
			return fmt.Sprintf("the loop allows budget%+d attempts instead of exactly the budget", lim.c), false
		}
	}
	if tested == 0 {
		return "the loop containing the exec attempt has no exit test on its attempt counter", false
	}
	return "", true
}

func subAff(a, b aff) aff {
	if !a.ok || !b.ok {
		return aff{}
	}
	switch {
	case b.sym == nil:
		return aff{a.sym, a.c - b.c, true}
	case a.sym == b.sym:
		return aff{nil, a.c - b.c, true}
	}
	return aff{}
}

func isInt(t types.Type) bool {
	b, ok := t.Underlying().(*types.Basic)
	return ok && b.Info()&types.IsInteger != 0
}
