package rules

import (
	"fmt"
	"go/types"
	"strings"

	"flytsa/internal/eng"
	"flytsa/internal/load"

	"golang.org/x/tools/go/ssa"
)

// flowFields resolves the two fields of Flow by type role.
func flowFields(r *Roles) (start, trans int, ok bool) {
	start, trans = -1, -1
	if r.Flow == nil || r.Node == nil {
		return
	}
	st, isStruct := r.Flow.Underlying().(*types.Struct)
	if !isStruct {
		return
	}
	for i := 0; i < st.NumFields(); i++ {
		ft := st.Field(i).Type()
		if types.Identical(ft, r.Node) && start < 0 {
			start = i
		}
		if m, isMap := ft.Underlying().(*types.Map); isMap && types.Identical(m.Key(), r.Node) {
			if inner, ok := m.Elem().Underlying().(*types.Map); ok && types.Identical(inner.Elem(), r.Node) {
				trans = i
			}
		}
	}
	return start, trans, start >= 0 && trans >= 0
}

// FlowMon checks (*Flow).Exec: routing (C03), store/action threading (C10),
// fail-stop and transparency (C04.R4), cancellation (C05 on flows).
type FlowMon struct {
	R                  *Roles
	Col                *Col
	Recv, Ctx, PrepV   *eng.Term
	StartIdx, TransIdx int
}

type flowState struct {
	n                          int8 // child runs so far (saturating)
	prevNode, prevAct, prevErr *eng.Term
	obs                        *eng.Term
	cut                        bool
	cutAny                     bool
	sawLookup                  bool
}

func (s flowState) Key() string {
	return fmt.Sprintf("%d|%s|%s|%s|%s|%v%v%v", s.n, s.prevNode.Key(), s.prevAct.Key(), s.prevErr.Key(), s.obs.Key(), s.cut, s.cutAny, s.sawLookup)
}
func (s flowState) Terms() []*eng.Term {
	var out []*eng.Term
	for _, t := range []*eng.Term{s.prevNode, s.prevAct, s.prevErr, s.obs} {
		if t != nil {
			out = append(out, t)
		}
	}
	return out
}
func (s flowState) Rename(sub func(*eng.Term) *eng.Term) eng.MState {
	m := func(t *eng.Term) *eng.Term {
		if t == nil {
			return nil
		}
		return t.Map(sub)
	}
	n := s
	n.prevNode, n.prevAct, n.prevErr, n.obs = m(s.prevNode), m(s.prevAct), m(s.prevErr), m(s.obs)
	return n
}

func (m *FlowMon) Name() string     { return "flow" }
func (m *FlowMon) Init() eng.MState { return flowState{} }

func (m *FlowMon) transTerm() *eng.Term { return eng.Load(eng.FieldAddr(m.Recv, m.TransIdx)) }
func (m *FlowMon) startTerm() *eng.Term { return eng.Load(eng.FieldAddr(m.Recv, m.StartIdx)) }

func (m *FlowMon) OnEvent(c *eng.Ctx, ms eng.MState, ev *eng.Event) eng.MState {
	s := ms.(flowState)
	fn := funcLabel(ev.Fn)
	chk := func(rule, role string, ok bool, msg string) {
		m.Col.Check(rule, fn+":"+role, ok, ev.Pos, msg, pathIf(!ok, c))
	}
	if s.obs != nil && !s.cut && knownNonNil(c, s.obs) {
		s.cut, s.cutAny = true, true
	}
	T := m.transTerm()
	switch ev.Kind {
	case "store", "mapupdate", "mapdelete", "append", "clear", "send", "go":
		chk("C03.R6,C10.R11", "effect", false, "running a flow writes "+ev.Kind+" on "+descAddr(ev)+": the walk must keep no state between (or during) runs")
	case "lookup":
		// the node's row of the connection table is read: it has to be read after the node ran
		// (a node may connect itself while it runs; "most recently connected" includes that)
		if ev.Addr == T {
			s.sawLookup = true
		}
	case "branch":
		if ev.Decided || s.n == 0 {
			break
		}
		// routing decisions after a child run may depend only on the child's error,
		// the context, and the two-level lookup of (node, action)
		if m.hookPresenceTest(ev.Cond) {
			// "is the optional hook set?": configuration of the flow, not a routing input; what runs
			// next is still decided at the next child run / return
			break
		}
		if !m.allowedCond(c, s, ev.Cond, T) {
			chk("C03.R3", "routing-decision", false, "after a node finished, what runs next depends on "+ev.Cond.Pretty()+", which is not a function of the connection table entry for (that node, its action)")
		} else {
			chk("C03.R3", "routing-decision", true, "")
		}
	case "call":
		if isAtomicWrite(ev) {
			chk("C03.R6,C10.R11", "effect", false, "running a flow updates state through "+eng.CalleeName(ev.Callee)+": the walk must keep no state between (or during) runs")
		}
		switch ev.Class {
		case "ctx.Err":
			chk("C05.R5", "ctx-observation", ev.Recv == nil || ev.Recv == m.Ctx, "the flow consults "+prettyT(ev.Recv)+" instead of the context it was run with: a cancellation of this run can go unnoticed (or another run's cancellation can end this one)")
			if len(ev.Results) > 0 {
				s.obs, s.cut = ev.Results[0], false
			}
		case "ChildRun":
			if len(ev.Args) != 3 {
				chk("C03.R4", "child-run", false, "unexpected Run signature")
				break
			}
			node := ev.Args[1]
			if s.n == 0 {
				chk("C03.R1", "child-run", node == m.startTerm(), "the first node run is "+node.Pretty()+", not the flow's start node")
			} else {
				want := eng.Lookup(eng.Lookup(T, s.prevNode), s.prevAct)
				chk("C03.R2,C10.R10", "child-run", node == want, "the next node run is "+node.Pretty()+"; the table prescribes "+want.Pretty())
				chk("C03.R2", "child-run", s.sawLookup, "the successor comes from a row of the connection table that was read before the previous node ran: a connection the node makes while it runs is missed")
				chk("C04.R4", "child-run", knownNil(c, s.prevErr), "a further node is run although the previous node's run is not known to have succeeded")
			}
			chk("C03.R2", "child-run", c.IsNil(node) == eng.TriFalse, "Run is invoked on a node that may be nil (a connection to nil must end the flow)")
			chk("C10.R2", "child-run", ev.Args[2] == eng.TA(m.PrepV, types.NewPointer(m.R.SharedStore)), "child nodes run on "+ev.Args[2].Pretty()+", not on the store handed to the flow")
			chk("C10.R2", "child-run", ev.Args[0] == m.Ctx, "child nodes run with "+ev.Args[0].Pretty()+", not the flow's context")
			// the event itself: the step goes through Run, the lifecycle entry that reports an empty
			// post action as the default action (so the router never sees "")
			chk("C18.R2", "child-run", true, "")
			fresh := s.obs != nil && knownNil(c, s.obs)
			chk("C05.R1", "child-run", fresh, "no context observation (not-cancelled edge) between the previous node's run and this one: a cancelled flow would start further nodes")
			chk("C05.R2", "child-run", !s.cutAny, "a node is started on a path that observed the context as cancelled")
			if s.n < 2 {
				s.n++
			}
			s.prevNode = node
			if !(node.K == eng.KParam || node.K == eng.KNil || node.K == eng.KConst) {
				s.prevNode = eng.EvArg(ev.Site, 1, 0)
			}
			s.prevAct, s.prevErr = ev.Results[0], ev.Results[1]
			s.obs, s.cut = nil, false
			s.sawLookup = false
		default:
			if isPkgVarCall(ev) && !m.passesNode(ev) {
				break // an internal trace hook that is not handed any node
			}
			if m.hookCall(s, ev, T) {
				// an optional function-typed field of the flow (observer / hook) called with nodes of the
				// path only: user code, not a node; it may cancel the context, so what was observed
				// before it is stale
				chk("C03.R4", "hook-call", true, "")
				if !s.cut {
					s.obs = nil
				}
				break
			}
			if strings.HasPrefix(ev.Class, "cb:") || strings.HasPrefix(ev.Class, "dyn:") || strings.HasPrefix(ev.Class, "field:") || strings.HasPrefix(ev.Class, "invoke:") {
				chk("C03.R4", "other-call", false, "running a flow invokes "+ev.Class+" directly: only Run(current) may touch nodes")
			}
		}
	case "return":
		m.onReturn(c, s, ev, T)
	}
	return s
}

// flowHookField: the term is the content of a function-typed field of the flow being run.
func (m *FlowMon) flowHookField(t *eng.Term) bool {
	if t == nil || t.K != eng.KLoad || t.A[0].K != eng.KFieldAddr || t.A[0].A[0] != m.Recv || m.R.Flow == nil {
		return false
	}
	st, ok := m.R.Flow.Underlying().(*types.Struct)
	if !ok || int(t.A[0].I) >= st.NumFields() {
		return false
	}
	_, isFunc := st.Field(int(t.A[0].I)).Type().Underlying().(*types.Signature)
	return isFunc
}

// hookPresenceTest: the condition is a nil test of a function-typed field of the flow.
func (m *FlowMon) hookPresenceTest(cond *eng.Term) bool {
	for cond.K == eng.KNot {
		cond = cond.A[0]
	}
	if cond.K != eng.KBin || (cond.S != "==" && cond.S != "!=") {
		return false
	}
	x, y := cond.A[0], cond.A[1]
	return (m.flowHookField(x) && y.K == eng.KNil) || (m.flowHookField(y) && x.K == eng.KNil)
}

// passesNode: some argument of the call has (or implements) the Node type.
func (m *FlowMon) passesNode(ev *eng.Event) bool {
	ci, ok := ev.Instr.(ssa.CallInstruction)
	if !ok || m.R.Node == nil {
		return true
	}
	iface, _ := m.R.Node.Underlying().(*types.Interface)
	for _, a := range ci.Common().Args {
		if types.Identical(a.Type(), m.R.Node) || (iface != nil && types.Implements(a.Type(), iface)) {
			return true
		}
		if sl, ok := a.Type().Underlying().(*types.Slice); ok { // variadic ...any carrying values
			if _, isIface := sl.Elem().Underlying().(*types.Interface); isIface && variadicMayCarry(a, m.R.Node, iface) {
				return true
			}
		}
	}
	return false
}

// variadicMayCarry: the variadic argument (a slice over a fresh array filled by the caller) may
// hold a value of the node type; anything the scan does not understand counts as "may".
func variadicMayCarry(arg ssa.Value, node types.Type, iface *types.Interface) bool {
	if c, ok := arg.(*ssa.Const); ok && c.IsNil() {
		return false
	}
	sl, ok := arg.(*ssa.Slice)
	if !ok {
		return true
	}
	al, ok := sl.X.(*ssa.Alloc)
	if !ok || al.Referrers() == nil {
		return true
	}
	for _, ref := range *al.Referrers() {
		ia, ok := ref.(*ssa.IndexAddr)
		if !ok {
			if ref == ssa.Instruction(sl) {
				continue
			}
			return true
		}
		if ia.Referrers() == nil {
			continue
		}
		for _, r2 := range *ia.Referrers() {
			st, ok := r2.(*ssa.Store)
			if !ok {
				return true
			}
			mi, ok := st.Val.(*ssa.MakeInterface)
			if !ok {
				return true
			}
			t := mi.X.Type()
			if types.Identical(t, node) || (iface != nil && types.Implements(t, iface)) {
				return true
			}
			if _, isIface := t.Underlying().(*types.Interface); isIface {
				return true
			}
			if st, isStruct := t.Underlying().(*types.Struct); isStruct {
				for i := 0; i < st.NumFields(); i++ {
					ft := st.Field(i).Type()
					if _, isIface := ft.Underlying().(*types.Interface); isIface || types.Identical(ft, node) {
						return true
					}
				}
			}
		}
	}
	return false
}

// hookCall: a call of a function-typed field of the flow whose node-typed arguments are nodes of
// the path (the node that just ran, its successor by the table, or the start node).
func (m *FlowMon) hookCall(s flowState, ev *eng.Event, T *eng.Term) bool {
	if !m.flowHookField(ev.FnTerm) || m.R.Node == nil {
		return false
	}
	ci, ok := ev.Instr.(ssa.CallInstruction)
	if !ok {
		return false
	}
	iface, _ := m.R.Node.Underlying().(*types.Interface)
	for i, a := range ci.Common().Args {
		if i >= len(ev.Args) {
			break
		}
		isNode := types.Identical(a.Type(), m.R.Node) || (iface != nil && types.Implements(a.Type(), iface))
		if !isNode {
			continue
		}
		t := ev.Args[i]
		on := t == m.startTerm()
		if s.n > 0 {
			on = on || t == s.prevNode || t == eng.Lookup(eng.Lookup(T, s.prevNode), s.prevAct)
		}
		if !on {
			return false
		}
	}
	return true
}

func descAddr(ev *eng.Event) string {
	if ev.Addr != nil {
		return ev.Addr.Pretty()
	}
	return "shared state"
}

// allowedCond: the condition mentions only the allowed routing inputs.
func (m *FlowMon) allowedCond(c *eng.Ctx, s flowState, cond *eng.Term, T *eng.Term) bool {
	inner := eng.Lookup(T, s.prevNode)
	allowed := map[*eng.Term]bool{
		s.prevErr: true, inner: true, eng.LookupOk(T, s.prevNode): true,
		eng.Lookup(inner, s.prevAct): true, eng.LookupOk(inner, s.prevAct): true,
	}
	if s.obs != nil {
		allowed[s.obs] = true
	}
	ok := true
	var rec func(t *eng.Term)
	rec = func(t *eng.Term) {
		if allowed[t] {
			return
		}
		switch t.K {
		case eng.KBin:
			if t.S == "==" || t.S == "!=" {
				rec(t.A[0])
				rec(t.A[1])
				return
			}
			ok = false
		case eng.KNot:
			rec(t.A[0])
		case eng.KNil:
		default:
			ok = false
		}
	}
	rec(cond)
	return ok
}

func (m *FlowMon) onReturn(c *eng.Ctx, s flowState, ev *eng.Event, T *eng.Term) {
	if len(ev.Results) != 2 {
		return
	}
	val, err := ev.Results[0], ev.Results[1]
	fn := funcLabel(ev.Fn)
	ck := func(rule, role string, ok bool, msg string) {
		m.Col.Check(rule, fn+":"+role, ok, ev.Pos, msg, pathIf(!ok, c))
	}
	ck("C03.R6,C10.R11", "effect", true, "")
	switch c.IsNil(err) {
	case eng.TriTrue:
		ck("C04.R4", "success-return", s.n > 0 && knownNil(c, s.prevErr), "the flow reports success although the last node's run is not known to have succeeded")
		ck("C05.R2", "success-return", !s.cutAny, "the flow reports success on a path that observed the context as cancelled")
		// ended exactly because the pair has no connection or is connected to nil
		ended := false
		if s.n > 0 {
			inner := eng.Lookup(T, s.prevNode)
			next := eng.Lookup(inner, s.prevAct)
			ended = c.Eval(eng.LookupOk(T, s.prevNode)) == eng.TriFalse || c.Eval(eng.LookupOk(inner, s.prevAct)) == eng.TriFalse ||
				c.IsNil(inner) == eng.TriTrue || c.IsNil(next) == eng.TriTrue
		}
		ck("C03.R3,C10.R10", "success-return", ended, "the flow ends although the connection table may hold a non-nil successor for (last node, its action)")
		ck("C03.R3", "success-return", s.n == 0 || s.sawLookup, "the flow ends on a row of the connection table that was read before the last node ran: a connection the node makes while it runs is missed")
		okVal := val.K == eng.KBox && m.R.Action != nil && types.Identical(val.T, m.R.Action) && val.A[0] == s.prevAct
		ck("C10.R3,C03.R9", "success-return", okVal, "a finished flow must hand back the action of the last node it ran (boxed as Action), got "+val.Pretty())
	case eng.TriFalse:
		switch {
		case s.n > 0 && knownNonNil(c, s.prevErr):
			// a failed node's error is what the flow reports, whether or not the context was seen
			// cancelled afterwards
			ck("C04.R4,C05.R4", "error-return", err.Unwraps(s.prevErr), "the flow's error "+err.Pretty()+" does not wrap the failing node's error "+s.prevErr.Pretty()+" (a node cut short by cancellation fails with an error matching the context's: the flow has to keep that chain)")
		case s.cutAny:
			found := false
			for _, l := range err.WrapLeaves() {
				if l.K == eng.KEv && c.E.SiteClass[l.S] == "ctx.Err" && c.IsNil(l) != eng.TriTrue {
					found = true
				}
			}
			ck("C05.R2", "cancel-return", found, "a flow cut short by cancellation must return an error wrapping ctx.Err(), got "+err.Pretty())
		case s.n == 0:
			// configuration errors before any node ran (bad prep value, no start node)
			badPrep := c.Eval(eng.TAOk(m.PrepV, types.NewPointer(m.R.SharedStore))) == eng.TriFalse
			noStart := c.IsNil(m.startTerm()) == eng.TriTrue
			ck("C03.R1", "config-error-return", badPrep || noStart, "the flow fails before running its start node without an established reason")
		default:
			ck("C04.R4", "error-return", false, "the flow returns error "+err.Pretty()+" although no node failed and no cancellation was observed")
		}
	default:
		ck("C04.R4", "return", false, "nil-ness of the flow's returned error "+err.Pretty()+" is not established")
	}
}

// AnalyzeFlow runs all flow-related roots.
func AnalyzeFlow(p *load.Program, r *Roles, depth int) *UnitResult {
	res := &UnitResult{Col: NewCol()}
	col := res.Col
	si, ti, ok := flowFields(r)
	if !ok {
		col.Unproven("C03.R0,C10.R0", "Flow:fields", p.Position(0), "cannot identify the start-node and transition-table fields of Flow by their types", nil)
		return res
	}
	var memInit map[*eng.Term]*eng.Term
	run := func(root *ssa.Function, mons []eng.Monitor, mode Mode) *eng.Engine {
		var e *eng.Engine
		cfg := eng.Config{Prog: p.Prog, Pkg: p.SSA, Fset: p.Fset, Root: root, MaxDepth: depth,
			Classify: r.Classifier(mode), IntLowerBound: budgetLowerBound(&e), Monitors: mons, MemInit: memInit}
		e = eng.New(cfg)
		e.Run()
		res.Stats.add(e, root)
		for _, pr := range e.SortedProblems() {
			col.Unproven("C03.ENGINE,C10.ENGINE", "engine:"+root.Name()+":"+pr.Kind, pr.Pos, pr.Msg, nil)
		}
		return e
	}
	// (*Flow).Exec
	if fn := r.P.DeclaredMethod("Flow", "Exec"); fn != nil && len(fn.Params) == 3 {
		// optional scalar settings of a flow (a step limit, a name, a flag) are analysed at the value
		// NewFlow gives them: the properties speak about flows as constructed; a setting that is
		// active by default shows up as a known non-zero value here
		memInit = flowScalarDefaults(p, r, depth, eng.Param(0, fn.Params[0].Name()), si, ti)
		defer func() { memInit = nil }()
		mon := &FlowMon{R: r, Col: col, StartIdx: si, TransIdx: ti,
			Recv: eng.Param(0, fn.Params[0].Name()), Ctx: eng.Param(1, fn.Params[1].Name()), PrepV: eng.Param(2, fn.Params[2].Name())}
		run(fn, []eng.Monitor{mon}, Mode{SummariseRun: true, SummarisePool: true, SummariseCfg: true, SummariseToSlice: true})
	} else {
		col.Unproven("C03.R0,C10.R0", "Flow.Exec", p.Position(0), "method (*Flow).Exec not found", nil)
	}
	m := &flowSmall{r: r, col: col, p: p, si: si, ti: ti}
	// (*Flow).Prep
	if fn := r.P.DeclaredMethod("Flow", "Prep"); fn != nil && len(fn.Params) == 3 {
		e := run(fn, []eng.Monitor{&effectMon{col: col, rule: "C03.R6", what: "Flow.Prep"}}, Mode{SummariseRun: true})
		m.checkPrep(fn, e)
	} else {
		col.Unproven("C10.R1", "Flow.Prep", p.Position(0), "method (*Flow).Prep not found", nil)
	}
	// (*Flow).Post
	if fn := r.P.DeclaredMethod("Flow", "Post"); fn != nil && len(fn.Params) == 5 {
		e := run(fn, []eng.Monitor{&effectMon{col: col, rule: "C03.R6", what: "Flow.Post"}}, Mode{SummariseRun: true})
		m.checkPost(fn, e)
	} else {
		col.Unproven("C10.R4", "Flow.Post", p.Position(0), "method (*Flow).Post not found", nil)
	}
	// (*Flow).Run
	if fn := r.P.DeclaredMethod("Flow", "Run"); fn != nil && len(fn.Params) == 3 {
		fr := &flowRunMon{r: r, col: col}
		e := run(fn, []eng.Monitor{fr, &effectMon{col: col, rule: "C03.R6", what: "Flow.Run"}}, Mode{SummariseRun: true})
		m.checkFlowRun(fn, e)
	}
	// (*Flow).Connect
	if fn := r.P.DeclaredMethod("Flow", "Connect"); fn != nil && len(fn.Params) == 4 {
		cm := &connectMon{r: r, col: col, ti: ti,
			recv: eng.Param(0, fn.Params[0].Name()), from: eng.Param(1, fn.Params[1].Name()), action: eng.Param(2, fn.Params[2].Name()), to: eng.Param(3, fn.Params[3].Name())}
		run(fn, []eng.Monitor{cm}, Mode{})
	} else {
		col.Unproven("C03.R5", "Flow.Connect", p.Position(0), "method (*Flow).Connect not found", nil)
	}
	// NewFlow
	if fn := r.P.Func("NewFlow"); fn != nil && len(fn.Params) == 1 {
		e := run(fn, nil, Mode{})
		m.checkNewFlow(fn, e)
	} else {
		col.Unproven("C03.R7,C10.R6", "NewFlow", p.Position(0), "function NewFlow not found", nil)
	}
	// C10.R5: the lifecycle does not special-case flows
	m.checkNoFlowSpecialCase()
	return res
}

// flowScalarDefaults explores NewFlow and returns, for every field of Flow of a basic type whose
// value in the constructed flow is a constant on all paths, the preloaded content of that field of
// the receiver.
func flowScalarDefaults(p *load.Program, r *Roles, depth int, recv *eng.Term, si, ti int) map[*eng.Term]*eng.Term {
	fn := p.Func("NewFlow")
	if fn == nil || r.Flow == nil {
		return nil
	}
	st, ok := r.Flow.Underlying().(*types.Struct)
	if !ok {
		return nil
	}
	e := eng.New(eng.Config{Prog: p.Prog, Pkg: p.SSA, Fset: p.Fset, Root: fn, MaxDepth: depth, Classify: r.Classifier(Mode{})})
	e.Run()
	vals := map[int]*eng.Term{}
	bad := map[int]bool{}
	n := 0
	for _, rt := range e.Returns {
		if rt.Panic || len(rt.Vals) != 1 {
			continue
		}
		n++
		c := &eng.Ctx{E: e, St: rt.State}
		obj := c.Mem(rt.Vals[0])
		if obj == nil || obj.K != eng.KStruct {
			return nil
		}
		for k := 0; k < st.NumFields() && k < len(obj.A); k++ {
			if k == si || k == ti {
				continue
			}
			if _, basic := st.Field(k).Type().Underlying().(*types.Basic); !basic {
				continue
			}
			v := obj.A[k]
			if v != nil && v.K == eng.KZero {
				v = eng.ZeroOf(st.Field(k).Type())
			}
			if v == nil || v.K != eng.KConst {
				bad[k] = true
				continue
			}
			if old, seen := vals[k]; seen && old != v {
				bad[k] = true
			}
			vals[k] = v
		}
	}
	if n == 0 {
		return nil
	}
	out := map[*eng.Term]*eng.Term{}
	for k, v := range vals {
		if !bad[k] {
			out[eng.FieldAddr(recv, k)] = v
		}
	}
	return out
}

type flowSmall struct {
	r      *Roles
	col    *Col
	p      *load.Program
	si, ti int
}

func (m *flowSmall) checkPrep(fn *ssa.Function, e *eng.Engine) {
	shared := eng.Param(2, fn.Params[2].Name())
	for _, rt := range e.Returns {
		ok := !rt.Panic && len(rt.Vals) == 2 && rt.Vals[0].K == eng.KBox && rt.Vals[0].A[0] == shared && rt.Vals[1].K == eng.KNil
		got := ""
		for _, v := range rt.Vals {
			got += v.Pretty() + " "
		}
		m.col.Check("C10.R1,C03.R8", "Flow.Prep:return", ok, rt.Pos, "a flow's prep must hand the parent's own store to exec unchanged, got ("+strings.TrimSpace(got)+")", nil)
	}
}

func (m *flowSmall) checkPost(fn *ssa.Function, e *eng.Engine) {
	execRes := eng.Param(4, fn.Params[4].Name())
	for _, rt := range e.Returns {
		if rt.Panic || len(rt.Vals) != 2 {
			m.col.Check("C10.R4", "Flow.Post:return", false, rt.Pos, "Flow.Post may panic", nil)
			continue
		}
		isAct := e.Eval(rt.State.Facts(), eng.TAOk(execRes, m.r.Action))
		if isAct == eng.TriFalse {
			// dead in practice (Flow.Exec always boxes an Action, C10.R3); any value is acceptable here
			m.col.Check("C10.R4", "Flow.Post:not-action-return", rt.Vals[1].K == eng.KNil, rt.Pos, "Flow.Post fails for a non-Action exec result", nil)
			continue
		}
		ok := isAct == eng.TriTrue && rt.Vals[0] == eng.TA(execRes, m.r.Action) && rt.Vals[1].K == eng.KNil
		m.col.Check("C10.R4", "Flow.Post:return", ok, rt.Pos, "Flow.Post must return exactly the action Flow.Exec handed over, got "+rt.Vals[0].Pretty(), nil)
	}
}

func (m *flowSmall) checkFlowRun(fn *ssa.Function, e *eng.Engine) {
	for _, rt := range e.Returns {
		ok := !rt.Panic && len(rt.Vals) == 1 && rt.Vals[0].K == eng.KEv && e.SiteClass[rt.Vals[0].S] == "ChildRun" && rt.Vals[0].I == 1
		m.col.Check("C10.R7,C02.R7", "Flow.Run:return", ok, rt.Pos, "Flow.Run must return the error of Run(ctx, flow, shared)", nil)
	}
}

func (m *flowSmall) checkNewFlow(fn *ssa.Function, e *eng.Engine) {
	start := eng.Param(0, fn.Params[0].Name())
	for _, rt := range e.Returns {
		if rt.Panic || len(rt.Vals) != 1 {
			m.col.Check("C03.R7", "NewFlow:return", false, rt.Pos, "NewFlow may panic", nil)
			continue
		}
		c := &eng.Ctx{E: e, St: rt.State}
		obj := c.Mem(rt.Vals[0])
		if obj.K != eng.KStruct {
			m.col.Check("C03.R7", "NewFlow:return", false, rt.Pos, "NewFlow does not return a freshly built Flow: "+rt.Vals[0].Pretty(), nil)
			continue
		}
		m.col.Check("C03.R7,C10.R8", "NewFlow:start", obj.A[m.si] == start, rt.Pos, "NewFlow stores "+obj.A[m.si].Pretty()+" as start node, not its argument", nil)
		tr := obj.A[m.ti]
		m.col.Check("C03.R7,C10.R8", "NewFlow:transitions", tr.K == eng.KMake, rt.Pos, "NewFlow must start with a fresh, non-nil, empty connection table, got "+tr.Pretty(), nil)
		// embedded BaseNode: defaults, no options (a flow is never re-run from its start by a retry)
		okBase := false
		why := "no embedded *BaseNode found"
		for i, f := range obj.A {
			if i == m.si || i == m.ti {
				continue
			}
			bn := c.Mem(f)
			if bn.K == eng.KStruct && m.r.BaseNode != nil && types.Identical(bn.T, m.r.BaseNode) {
				okBase, why = baseNodeDefaults(m.r, bn)
			}
		}
		m.col.Check("C10.R6", "NewFlow:base-node", okBase, rt.Pos, "a flow must have the default budget of one attempt and no wait: "+why, nil)
	}
}

// baseNodeDefaults checks maxRetries == 1 and every other numeric/string field zero.
func baseNodeDefaults(r *Roles, bn *eng.Term) (bool, string) {
	// the defaults are what the getters answer for a node built from no options: one attempt,
	// no wait, sequential, continue-on-error - read at the locations the getters read
	leaves := getterLeaves(r.P, r)
	want := map[string]func(v *eng.Term) bool{
		"GetMaxRetries":       func(v *eng.Term) bool { return v.IsConstInt() && v.I == 1 },
		"GetWait":             func(v *eng.Term) bool { return v.IsConstInt() && v.I == 0 },
		"GetBatchConcurrency": func(v *eng.Term) bool { return v.IsConstInt() && v.I == 0 },
		"GetBatchErrorHandling": func(v *eng.Term) bool {
			s, ok := v.StringConst()
			return ok && (s == "" || s == "continue")
		},
	}
	for _, g := range []string{"GetMaxRetries", "GetWait", "GetBatchConcurrency", "GetBatchErrorHandling"} {
		lf, ok := leaves[g]
		if !ok {
			return false, "cannot tell which field " + g + " reads"
		}
		v := lf.at(bn)
		if v == nil {
			return false, lf.key + " not found in the constructed node"
		}
		if v.K == eng.KZero {
			v = eng.ZeroOf(v.T)
		}
		if !want[g](v) {
			return false, lf.key + " = " + v.Pretty()
		}
	}
	return true, ""
}

// checkNoFlowSpecialCase: no function reachable from Run by static calls asserts a node to *Flow.
func (m *flowSmall) checkNoFlowSpecialCase() {
	if m.r.FnRun == nil || m.r.Flow == nil {
		return
	}
	seen := map[*ssa.Function]bool{}
	var visit func(f *ssa.Function)
	bad := ""
	n := 0
	visit = func(f *ssa.Function) {
		if f == nil || seen[f] || len(f.Blocks) == 0 {
			return
		}
		seen[f] = true
		for _, b := range f.Blocks {
			for _, ins := range b.Instrs {
				switch x := ins.(type) {
				case *ssa.TypeAssert:
					n++
					t := x.AssertedType
					if p, ok := t.(*types.Pointer); ok {
						t = p.Elem()
					}
					if types.Identical(t, m.r.Flow) {
						bad = posStr(m.p.Position(x.Pos()))
					}
				case ssa.CallInstruction:
					if c := x.Common().StaticCallee(); c != nil && (c.Pkg == m.p.SSA || c.Parent() != nil) {
						visit(c)
					}
				case *ssa.MakeClosure:
					visit(x.Fn.(*ssa.Function))
				}
			}
		}
	}
	visit(m.r.FnRun)
	m.col.Check("C10.R5", "Run:type-tests", bad == "", m.p.Position(m.r.FnRun.Pos()), "the lifecycle tests for *Flow at "+bad+": a flow must be run like any other node", nil)
}

// effectMon flags any heap effect.
type effectMon struct {
	col  *Col
	rule string
	what string
}
type unitState struct{}

func (unitState) Key() string                                   { return "" }
func (u unitState) Rename(func(*eng.Term) *eng.Term) eng.MState { return u }
func (unitState) Terms() []*eng.Term                            { return nil }
func (m *effectMon) Name() string                               { return "effects" }
func (m *effectMon) Init() eng.MState                           { return unitState{} }
func (m *effectMon) OnEvent(c *eng.Ctx, ms eng.MState, ev *eng.Event) eng.MState {
	switch ev.Kind {
	case "store", "mapupdate", "mapdelete", "append", "clear", "send", "go":
		m.col.Check(m.rule, m.what+":effect", false, ev.Pos, m.what+" writes shared state ("+ev.Kind+" "+descAddr(ev)+")", pathIf(true, c))
	case "call":
		if isAtomicWrite(ev) {
			m.col.Check(m.rule, m.what+":effect", false, ev.Pos, m.what+" writes shared state ("+eng.CalleeName(ev.Callee)+")", pathIf(true, c))
		}
	case "return":
		m.col.Check(m.rule, m.what+":effect", true, ev.Pos, "", nil)
	}
	return ms
}

// isAtomicWrite: a call of a sync/atomic operation other than a load (state kept
// through an atomic is state all the same).
func isAtomicWrite(ev *eng.Event) bool {
	if ev.Callee == nil {
		return false
	}
	n := eng.CalleeName(ev.Callee)
	if !strings.Contains(n, "sync/atomic.") {
		return false
	}
	return !strings.Contains(n[strings.LastIndex(n, ".")+1:], "Load")
}

// flowRunMon checks Flow.Run's single call of Run.
type flowRunMon struct {
	r   *Roles
	col *Col
}

func (m *flowRunMon) Name() string     { return "flowrun" }
func (m *flowRunMon) Init() eng.MState { return unitState{} }
func (m *flowRunMon) OnEvent(c *eng.Ctx, ms eng.MState, ev *eng.Event) eng.MState {
	if ev.Kind == "call" && ev.Class == "ChildRun" && len(ev.Args) == 3 {
		fn := ev.Fn
		ok := ev.Args[0] == eng.Param(1, fn.Params[1].Name()) && unbox(ev.Args[1]) == eng.Param(0, fn.Params[0].Name()) && ev.Args[2] == eng.Param(2, fn.Params[2].Name())
		m.col.Check("C10.R7,C02.R7,C05.R5", "Flow.Run:run-call", ok, ev.Pos, "Flow.Run must run the flow itself through Run with the caller's context and store, got ("+prettyArgs(ev.Args)+")", pathIf(!ok, c))
	}
	return ms
}

// connectMon checks (*Flow).Connect (C03.R5).
type connectMon struct {
	r                      *Roles
	col                    *Col
	ti                     int
	recv, from, action, to *eng.Term
}
type connectState struct {
	updates int8
	created *eng.Term // fresh inner map stored at table[from] on this path
	bad     string
}

func (s connectState) Key() string { return fmt.Sprintf("%d|%s|%s", s.updates, s.created.Key(), s.bad) }
func (s connectState) Terms() []*eng.Term {
	if s.created != nil {
		return []*eng.Term{s.created}
	}
	return nil
}
func (s connectState) Rename(sub func(*eng.Term) *eng.Term) eng.MState {
	if s.created != nil {
		s.created = s.created.Map(sub)
	}
	return s
}
func (m *connectMon) Name() string     { return "connect" }
func (m *connectMon) Init() eng.MState { return connectState{} }
func (m *connectMon) OnEvent(c *eng.Ctx, ms eng.MState, ev *eng.Event) eng.MState {
	s := ms.(connectState)
	T := eng.Load(eng.FieldAddr(m.recv, m.ti))
	inner := eng.Lookup(T, m.from)
	switch ev.Kind {
	case "mapupdate":
		switch {
		case ev.Addr == T:
			// creating the inner map: only when absent, only a fresh map, only under key `from`
			absent := c.IsNil(inner) == eng.TriTrue || c.Eval(eng.LookupOk(T, m.from)) == eng.TriFalse
			ok := ev.Key == m.from && ev.Val.K == eng.KMake && absent
			m.col.Check("C03.R5", "Flow.Connect:inner-map-creation", ok, ev.Pos, "the per-node table may only be created (fresh) when it is absent; here table["+ev.Key.Pretty()+"] = "+ev.Val.Pretty(), pathIf(!ok, c))
			s.created = ev.Val
		case ev.Addr == inner || (s.created != nil && ev.Addr == s.created):
			ok := ev.Key == m.action && ev.Val == m.to
			m.col.Check("C03.R5", "Flow.Connect:transition-store", ok, ev.Pos, "Connect(from, action, to) must store to under (from, action); stores "+ev.Val.Pretty()+" under "+ev.Key.Pretty(), pathIf(!ok, c))
			if ev.Addr == inner && s.created == nil {
				// present entries are never nil: the only stores into the table are fresh maps (checked above and in NewFlow)
				nn := c.IsNil(inner) == eng.TriFalse || c.Eval(eng.LookupOk(T, m.from)) == eng.TriTrue
				m.col.Check("C03.R5", "Flow.Connect:transition-store", nn, ev.Pos, "the per-node table may be absent/nil when the transition is stored (panic)", pathIf(!nn, c))
			}
			if s.updates < 2 {
				s.updates++
			}
		default:
			m.col.Check("C03.R5", "Flow.Connect:transition-store", false, ev.Pos, "Connect writes a map other than the table entry of `from`: "+ev.Addr.Pretty(), pathIf(true, c))
		}
	case "mapdelete", "clear":
		m.col.Check("C03.R5", "Flow.Connect:delete", false, ev.Pos, "Connect removes connections", pathIf(true, c))
	case "store":
		m.col.Check("C03.R5", "Flow.Connect:other-write", false, ev.Pos, "Connect writes "+descAddr(ev)+" (the walk's inputs other than the table must not change)", pathIf(true, c))
	case "return":
		ok := s.updates == 1
		m.col.Check("C03.R5", "Flow.Connect:return", ok, ev.Pos, fmt.Sprintf("on this path Connect stores the transition %d times (want exactly once, unconditionally: the most recent Connect must win)", s.updates), pathIf(!ok, c))
		okr := len(ev.Results) == 1 && ev.Results[0] == m.recv
		m.col.Check("C03.R5", "Flow.Connect:return", okr, ev.Pos, "Connect must return its receiver for chaining", pathIf(!okr, c))
	}
	return s
}
