package rules

import (
	"fmt"
	"go/types"
	"sort"
	"strings"

	"flytsa/internal/eng"
	"flytsa/internal/load"

	"golang.org/x/tools/go/ssa"
)

// storeRecMon records field stores (by struct type and field name) of a setter.
type fieldStore struct {
	field string
	val   *eng.Term
	pos   string
}
type storeRecState struct {
	stores []fieldStore
	other  string
}

func (s storeRecState) Key() string {
	var sb strings.Builder
	for _, f := range s.stores {
		sb.WriteString(f.field + "=" + f.val.Key() + ";")
	}
	return sb.String() + "|" + s.other
}
func (s storeRecState) Terms() []*eng.Term {
	var out []*eng.Term
	for _, f := range s.stores {
		out = append(out, f.val)
	}
	return out
}
func (s storeRecState) Rename(sub func(*eng.Term) *eng.Term) eng.MState {
	n := storeRecState{other: s.other}
	for _, f := range s.stores {
		n.stores = append(n.stores, fieldStore{f.field, f.val.Map(sub), f.pos})
	}
	return n
}

type storeRecMon struct{}

func (storeRecMon) Name() string     { return "storerec" }
func (storeRecMon) Init() eng.MState { return storeRecState{} }
func (storeRecMon) OnEvent(c *eng.Ctx, ms eng.MState, ev *eng.Event) eng.MState {
	s := ms.(storeRecState)
	switch ev.Kind {
	case "store":
		st, _ := ev.Instr.(*ssa.Store)
		name := ""
		if st != nil {
			if fa, ok := st.Addr.(*ssa.FieldAddr); ok {
				name = fieldName(fa.X.Type(), fa.Field)
			}
		}
		n := storeRecState{other: s.other, stores: append([]fieldStore(nil), s.stores...)}
		if name == "" {
			n.other = "write to " + ev.Addr.Pretty()
			return n
		}
		// a struct-valued store is the store of each of its leaves (a literal that sets one
		// field writes the zero value to the others); a later store to a leaf replaces an earlier one
		var put func(name string, t types.Type, val *eng.Term)
		put = func(name string, t types.Type, val *eng.Term) {
			if st, ok := t.Underlying().(*types.Struct); ok && (val.K == eng.KStruct || val.K == eng.KZero) {
				tn := "?"
				if nt, ok := t.(*types.Named); ok {
					tn = nt.Obj().Name()
				}
				for i := 0; i < st.NumFields(); i++ {
					var fv *eng.Term
					if val.K == eng.KStruct && i < len(val.A) {
						fv = val.A[i]
					} else {
						fv = eng.ZeroOf(st.Field(i).Type())
					}
					put(tn+"."+st.Field(i).Name(), st.Field(i).Type(), fv)
				}
				return
			}
			for i := range n.stores {
				if n.stores[i].field == name {
					n.stores[i] = fieldStore{name, val, posStr(ev.Pos)}
					return
				}
			}
			if len(n.stores) < 8 {
				n.stores = append(n.stores, fieldStore{name, val, posStr(ev.Pos)})
			}
		}
		var vt types.Type
		if st != nil {
			vt = st.Val.Type()
		}
		if vt != nil {
			put(name, vt, ev.Val)
		} else {
			put(name, types.Typ[types.Invalid], ev.Val)
		}
		return n
	case "mapupdate", "mapdelete", "send", "go":
		n := s
		n.other = ev.Kind
		return n
	}
	return s
}

type setterSummary struct {
	entries []string // "cond => Type.field := value", sorted
	fields  map[string]bool
	problem string
}

func (a setterSummary) String() string { return "{" + strings.Join(a.entries, " | ") + "}" }

func canonTerm(t *eng.Term, argOf func(*eng.Term) string, cloSig ...func(*eng.Term) string) string {
	if t == nil {
		return "_"
	}
	if t.K == eng.KClosure {
		if len(cloSig) == 1 && cloSig[0] != nil {
			return cloSig[0](t)
		}
		return "wrapper-closure"
	}
	if a := argOf(t); a != "" {
		return a
	}
	r := t.Map(func(n *eng.Term) *eng.Term {
		if a := argOf(n); a != "" {
			return eng.Sym(a, 0)
		}
		return nil
	})
	return r.Pretty()
}

// summarise turns explored paths of a setter into a canonical summary.
func summarise(paths []*eng.ReturnRec, e *eng.Engine, argOf func(*eng.Term) string, cloSig func(*eng.Term) string) setterSummary {
	es := make([]*eng.Engine, len(paths))
	for i := range es {
		es[i] = e
	}
	return summariseMulti(paths, es, argOf, cloSig)
}

// summariseMulti is summarise over paths that come from several explorations.
func summariseMulti(paths []*eng.ReturnRec, engines []*eng.Engine, argOf func(*eng.Term) string, cloSig func(*eng.Term) string) setterSummary {
	sum := setterSummary{fields: map[string]bool{}}
	for pi, rt := range paths {
		e := engines[pi]
		if rt.Panic {
			sum.problem = "the setter can panic"
			continue
		}
		ss, _ := rt.State.MonByName(e, "storerec").(storeRecState)
		if ss.other != "" {
			sum.problem = "the setter has another effect: " + ss.other
		}
		var conds []string
		for atom, v := range rt.State.Facts().Bools() {
			s := canonTerm(atom, argOf)
			if !strings.Contains(s, "$arg") {
				continue
			}
			if !v {
				s = "!" + s
			}
			conds = append(conds, s)
		}
		sort.Strings(conds)
		var effs []string
		for _, f := range ss.stores {
			c := &eng.Ctx{E: e, St: rt.State}
			effs = append(effs, f.field+" := "+canonTerm(f.val, argOf, func(t *eng.Term) string {
				// captured variables: the setter's argument, directly or through its capture cell
				var binds []string
				for _, b := range t.A {
					s := argOf(b)
					if s == "" {
						s = argOf(eng.Load(b))
					}
					if s == "" {
						s = canonTerm(c.Mem(b), argOf)
					}
					binds = append(binds, s)
				}
				if cloSig == nil {
					return "wrapper-closure"
				}
				return "wrapper[" + strings.Join(binds, ",") + "]{" + cloSig(t) + "}"
			}))
			sum.fields[f.field] = true
		}
		if len(ss.stores) != 1 {
			sum.problem = fmt.Sprintf("a path of the setter writes %d fields (want exactly one: its own)", len(ss.stores))
		}
		sum.entries = append(sum.entries, strings.Join(conds, "&")+" => "+strings.Join(effs, ", "))
	}
	sort.Strings(sum.entries)
	// dedupe
	var out []string
	for i, e := range sum.entries {
		if i == 0 || e != sum.entries[i-1] {
			out = append(out, e)
		}
	}
	sum.entries = out
	return sum
}

// AnalyzeConfig decides C19.
func AnalyzeConfig(p *load.Program, r *Roles, depth int) *UnitResult {
	res := &UnitResult{Col: NewCol()}
	col := res.Col
	run := func(root *ssa.Function, free []*eng.Term, mode Mode, mons ...eng.Monitor) *eng.Engine {
		e := eng.New(eng.Config{Prog: p.Prog, Pkg: p.SSA, Fset: p.Fset, Root: root, RootFree: free, MaxDepth: depth, MaxStates: 20000,
			Classify: r.Classifier(mode), Monitors: mons, KeepFacts: true})
		e.Run()
		res.Stats.add(e, root)
		for _, pr := range e.SortedProblems() {
			col.Unproven("C19.ENGINE", "engine:"+funcLabel(root)+":"+pr.Kind, pr.Pos, pr.Msg, nil)
		}
		return e
	}
	retPtrs := func(e *eng.Engine) []*eng.ReturnRec {
		var out []*eng.ReturnRec
		for i := range e.Returns {
			out = append(out, &e.Returns[i])
		}
		return out
	}
	sigCache := map[*ssa.Function]string{}
	cloSig := func(t *eng.Term) string {
		w, _ := t.Aux.(*ssa.Function)
		if w == nil {
			return "?"
		}
		if s, ok := sigCache[w]; ok {
			return s
		}
		s := wrapperSignature(p, r, res, w)
		sigCache[w] = s
		return s
	}
	leaves := getterLeaves(p, r)
	settings := []string{"MaxRetries", "Wait", "BatchConcurrency", "BatchErrorHandling", "PrepFunc", "ExecFunc", "PostFunc", "ExecFallbackFunc", "PrepFuncAny", "ExecFuncAny", "PostFuncAny"}
	classFields := map[string]map[string]bool{"NodeOption": {}, "CustomNodeOption": {}}
	nForms := 0
	for _, S := range settings {
		name := "With" + S
		type form struct {
			label string
			ptype types.Type
			sum   setterSummary
		}
		var forms []form
		// option form: every return path of the option constructor is composed with the setter
		// closure it returns (the closure is explored with its captured cells preloaded with
		// what the constructor put there and the constructor's path facts carried over), so
		// work done before the closure is built counts like work done inside it
		if fn := p.Func(name); fn != nil && len(fn.Params) >= 1 {
			e := run(fn, nil, Mode{})
			optClass := ""
			var all []*eng.ReturnRec
			var allE []*eng.Engine
			found := false
			argSym := func(t *eng.Term) *eng.Term {
				return t.Map(func(n *eng.Term) *eng.Term {
					if n.K == eng.KParam {
						return eng.Sym(fmt.Sprintf("$arg%d", n.I), 0)
					}
					return nil
				})
			}
			for ri := range e.Returns {
				rt := &e.Returns[ri]
				if rt.Panic || len(rt.Vals) != 1 {
					continue
				}
				var clo *eng.Term
				v := rt.Vals[0]
				c := &eng.Ctx{E: e, St: rt.State}
				switch {
				case v.K == eng.KClosure:
					clo, optClass = v, "NodeOption"
				case v.K == eng.KBox:
					obj := c.Mem(v.A[0])
					if obj.K == eng.KStruct {
						for _, f := range obj.A {
							if f.K == eng.KClosure {
								clo, optClass = f, "CustomNodeOption"
							}
						}
					}
				}
				if clo == nil {
					continue
				}
				found = true
				cfn := clo.Aux.(*ssa.Function)
				free := make([]*eng.Term, len(cfn.FreeVars))
				memInit := map[*eng.Term]*eng.Term{}
				for k, fv := range cfn.FreeVars {
					free[k] = eng.Free(k, fv.Name())
					if k < len(clo.A) {
						memInit[free[k]] = argSym(c.Mem(clo.A[k]))
					}
				}
				src := rt.State.Facts()
				e2 := eng.New(eng.Config{Prog: p.Prog, Pkg: p.SSA, Fset: p.Fset, Root: cfn, RootFree: free, MaxDepth: depth, MaxStates: 20000,
					Classify: r.Classifier(Mode{}), Monitors: []eng.Monitor{storeRecMon{}}, KeepFacts: true, MemInit: memInit,
					InitFacts: func(e2 *eng.Engine, f *eng.Facts) {
						for atom, val := range src.Bools() {
							e2.Assume(f, argSym(atom), val)
						}
					}})
				e2.Run()
				res.Stats.add(e2, cfn)
				for _, pr := range e2.SortedProblems() {
					col.Unproven("C19.ENGINE", "engine:"+funcLabel(cfn)+":"+pr.Kind, pr.Pos, pr.Msg, nil)
				}
				for i := range e2.Returns {
					all = append(all, &e2.Returns[i])
					allE = append(allE, e2)
				}
			}
			if !found {
				col.Check("C19.R1", "option "+name+":setter", false, p.Position(fn.Pos()), "cannot find the setter closure the option returns", nil)
			} else {
				argOf := func(t *eng.Term) string {
					if t.K == eng.KSym && strings.HasPrefix(t.S, "$arg") {
						return t.S
					}
					return ""
				}
				sum := summariseMulti(all, allE, argOf, cloSig)
				forms = append(forms, form{"option " + name, fn.Params[0].Type(), sum})
				for f := range sum.fields {
					classFields[optClass][f] = true
				}
			}
		}
		// builder forms
		for _, tn := range []string{"NodeBuilder", "BatchNodeBuilder"} {
			fn := p.DeclaredMethod(tn, name)
			if fn == nil || len(fn.Params) < 2 {
				continue
			}
			e := run(fn, nil, Mode{}, storeRecMon{})
			sum := summarise(retPtrs(e), e, func(t *eng.Term) string {
				if t.K == eng.KParam && t.I >= 1 {
					return fmt.Sprintf("$arg%d", t.I-1)
				}
				return ""
			}, cloSig)
			recv := eng.Param(0, fn.Params[0].Name())
			for _, rt := range e.Returns {
				okR := !rt.Panic && len(rt.Vals) == 1 && rt.Vals[0] == recv
				col.Check("C19.R1", tn+"."+name+":returns-receiver", okR, rt.Pos, "a builder method must return its receiver for chaining", nil)
			}
			forms = append(forms, form{tn + "." + name, fn.Params[1].Type(), sum})
		}
		// the properties stated in terms of "the configured value" count the setter of that value
		alias := map[string]string{"Wait": ",C20.R5", "MaxRetries": ",C02.R6", "BatchConcurrency": ",C08.R7", "BatchErrorHandling": ",C07.R6,C09.R5"}[S]
		ownLeaf := leaves["Get"+S]
		for _, f := range forms {
			nForms++
			col.Check("C19.R2"+alias, f.label+":single-field", f.sum.problem == "", p.Position(0), f.sum.problem+" "+f.sum.String(), nil)
			if ownLeaf.key != "" {
				// the setter writes the very location its getter reads; a write to a location another
				// getter reads is that other setting's problem too
				wrote := false
				for fld := range f.sum.fields {
					if fld == ownLeaf.key {
						wrote = true
						continue
					}
					for g, lf := range leaves {
						if lf.key == fld {
							other := map[string]string{"GetWait": ",C20.R5", "GetMaxRetries": ",C02.R6", "GetBatchConcurrency": ",C08.R7", "GetBatchErrorHandling": ",C07.R6,C09.R5"}[g]
							col.Check("C19.R2"+other, f.label+":foreign-write:"+strings.TrimPrefix(g, "Get"), false, p.Position(0), "setting "+S+" also writes "+fld+", the location "+g+" reads: an earlier "+strings.TrimPrefix(g, "Get")+" setting is lost; it does "+f.sum.String(), nil)
						}
					}
				}
				col.Check("C19.R5"+alias, f.label+":getter-leaf", wrote, p.Position(0), "the setter does not write "+ownLeaf.key+", the location Get"+S+" reads; it does "+f.sum.String(), nil)
			}
			// the value stored is the argument itself, whatever the rest of the configuration is
			// (mode setters store constants chosen by the argument: C19.R6 below)
			if S != "BatchErrorHandling" {
				okID := len(f.sum.entries) == 1
				for _, e := range f.sum.entries {
					cond, eff, _ := strings.Cut(e, " => ")
					_, val, _ := strings.Cut(eff, " := ")
					if cond != "" || !(val == "$arg0" || strings.HasPrefix(val, "wrapper[$arg0]{")) {
						okID = false
					}
				}
				col.Check("C19.R2"+alias, f.label+":stores-argument", okID, p.Position(0), "the setter must store its argument unconditionally and unchanged (or the wrapper built around it); it does "+f.sum.String(), nil)
			}
		}
		// forms taking the same parameter type must have equal summaries
		for i := 0; i < len(forms); i++ {
			for j := i + 1; j < len(forms); j++ {
				if !types.Identical(forms[i].ptype, forms[j].ptype) {
					continue
				}
				a, b := forms[i].sum.String(), forms[j].sum.String()
				col.Check("C19.R1", name+":"+forms[i].label+" vs "+forms[j].label, a == b, p.Position(0),
					fmt.Sprintf("the two ways of setting %s differ: %s does %s, %s does %s", S, forms[i].label, a, forms[j].label, b), nil)
			}
		}
		// the error-handling constants
		if S == "BatchErrorHandling" {
			for _, f := range forms {
				ok := len(f.sum.entries) == 2
				for _, e := range f.sum.entries {
					good := (strings.Contains(e, "!$arg0") && strings.Contains(e, `:= "stop"`)) || (!strings.Contains(e, "!$arg0") && strings.Contains(e, "$arg0") && strings.Contains(e, `:= "continue"`))
					if !good {
						ok = false
					}
				}
				col.Check("C19.R6", f.label+":mode-constants", ok, p.Position(0), "the error-handling setter must store \"continue\" for true and \"stop\" for false; it does "+f.sum.String(), nil)
			}
		}
	}
	col.Check("C19.R1", "setters:count", nForms >= 25, p.Position(0), fmt.Sprintf("only %d setter forms found (expected the 11 options and 19 builder methods)", nForms), nil)
	// option classes write disjoint field sets (so mixing classes cannot change last-wins)
	disjoint := true
	for f := range classFields["NodeOption"] {
		if classFields["CustomNodeOption"][f] {
			disjoint = false
		}
	}
	// applying an option object runs the setter closure it carries, once, on the node given
	if iface := p.Iface("CustomNodeOption"); iface != nil {
		nApply := 0
		for _, fn := range p.AllFunctions() {
			if fn.Name() != "apply" || fn.Signature.Recv() == nil || len(fn.Params) != 2 {
				continue
			}
			if !types.Implements(fn.Signature.Recv().Type(), iface) {
				continue
			}
			nApply++
			label := funcLabel(fn)
			for _, pth := range exploreAdapter(p, r, res, fn, Mode{}, nil, nil, nil, "C19.ENGINE") {
				node := eng.Param(1, fn.Params[1].Name())
				n := 0
				okArg := true
				for _, uc := range pth.calls {
					if strings.HasPrefix(uc.class, "field:") || strings.HasPrefix(uc.class, "dyn:") {
						n++
						okArg = okArg && len(uc.args) == 1 && uc.args[0] == node
					}
				}
				col.CheckAt("C19.R3", label+":runs-setter", !pth.panic && n == 1 && okArg, pth.pos, fmt.Sprintf("applying a function option must run its setter exactly once on the node being configured (%d calls, on that node: %v)", n, okArg), nil)
			}
		}
		col.Check("C19.R3", "CustomNodeOption.apply:implementations", nApply >= 1, p.Position(0), "no implementation of CustomNodeOption.apply found", nil)
	}
	col.Check("C19.R3", "option-classes:disjoint-fields", disjoint && len(classFields["NodeOption"]) > 0 && len(classFields["CustomNodeOption"]) > 0, p.Position(0), "base options and function options write overlapping fields: their relative order would matter", nil)

	// constructors
	accepted := map[string][]string{}
	for _, cname := range []string{"NewBaseNode", "NewNode", "NewBatchNode"} {
		fn := p.Func(cname)
		if fn == nil || len(fn.Params) != 1 {
			col.Unproven("C19.R3", cname, p.Position(0), "constructor not found", nil)
			continue
		}
		mon := &ctorMon{col: col, name: cname, opts: eng.Param(0, fn.Params[0].Name())}
		e := run(fn, nil, Mode{}, mon)
		set := map[string]bool{}
		for _, rt := range e.Returns {
			cs, _ := rt.State.MonByName(e, "ctor").(ctorState)
			for _, a := range strings.Split(cs.accepted, ";") {
				if a != "" {
					set[a] = true
				}
			}
			col.Check("C19.R3", cname+":application", cs.bad == "", rt.Pos, cs.bad, nil)
			col.Check("C19.R3", cname+":application", cs.pendingLists == "", rt.Pos, "options collected into "+cs.pendingLists+" are never applied", nil)
		}
		// nothing the constructor itself writes into the node's configuration comes after an option
		// was applied: "the last setting wins" also against the constructor (a clamp or a default
		// applied afterwards would make the option form differ from the builder form)
		if site, what := postApplyWrite(p, r, fn); site != nil {
			col.Check("C19.R3,C19.R1", cname+":post-apply-write", false, p.Position(site.Pos()), "the constructor writes "+what+" after options were applied: what the caller set last is overridden, and the builder form (which sets the field directly) behaves differently", nil)
		} else {
			col.Check("C19.R3,C19.R1", cname+":post-apply-write", true, p.Position(fn.Pos()), "", nil)
		}
		var list []string
		for k := range set {
			list = append(list, k)
		}
		sort.Strings(list)
		accepted[cname] = list
		// defaults: the node built from no options
		checkDefaults(p, r, col, fn, e)
	}
	if a, b := accepted["NewNode"], accepted["NewBatchNode"]; a != nil || b != nil {
		col.Check("C19.R4", "NewNode vs NewBatchNode:accepted-options", strings.Join(a, ",") == strings.Join(b, ",") && len(a) >= 2, p.Position(0),
			fmt.Sprintf("the two constructors do not accept the same option kinds: NewNode %v, NewBatchNode %v (an option one of them drops is silently ignored)", a, b), nil)
	}
	// getters
	checkGetters(p, r, col, res, run)
	return res
}

// postApplyWrite looks, in a constructor and the in-package functions it calls, for a store into a
// field of a BaseNode that can execute after an option has been applied (a call through a value
// of an option type, or of an option's apply method). Returns the store and a description.
func postApplyWrite(p *load.Program, r *Roles, ctor *ssa.Function) (ssa.Instruction, string) {
	if r.BaseNode == nil {
		return nil, ""
	}
	isOptionCall := func(ins ssa.Instruction) bool {
		ci, ok := ins.(ssa.CallInstruction)
		if !ok {
			return false
		}
		cc := ci.Common()
		if cc.IsInvoke() {
			return cc.Method.Name() == "apply"
		}
		if cc.StaticCallee() != nil {
			return false
		}
		if n, ok := cc.Value.Type().(*types.Named); ok && n.Obj().Pkg() == p.Types && strings.HasSuffix(n.Obj().Name(), "Option") {
			return true
		}
		return false
	}
	inBaseNode := func(addr ssa.Value) (bool, string) {
		for {
			fa, ok := addr.(*ssa.FieldAddr)
			if !ok {
				return false, ""
			}
			if pt, ok := fa.X.Type().Underlying().(*types.Pointer); ok {
				if types.Identical(pt.Elem(), r.BaseNode) {
					if st, ok := r.BaseNode.Underlying().(*types.Struct); ok && fa.Field < st.NumFields() {
						return true, "BaseNode." + st.Field(fa.Field).Name()
					}
					return true, "a field of BaseNode"
				}
			}
			addr = fa.X
		}
	}
	// writes[f]: some store of f (or of what it calls) goes into a BaseNode
	var writes func(f *ssa.Function, depth int, seen map[*ssa.Function]bool) (ssa.Instruction, string)
	writes = func(f *ssa.Function, depth int, seen map[*ssa.Function]bool) (ssa.Instruction, string) {
		if f == nil || seen[f] || depth > 3 || len(f.Blocks) == 0 || f.Pkg != p.SSA {
			return nil, ""
		}
		seen[f] = true
		for _, b := range f.Blocks {
			for _, ins := range b.Instrs {
				if st, ok := ins.(*ssa.Store); ok {
					if ok, what := inBaseNode(st.Addr); ok {
						return ins, what
					}
				}
				if ci, ok := ins.(ssa.CallInstruction); ok {
					if g := ci.Common().StaticCallee(); g != nil && !isSetterLike(g) {
						if i, w := writes(g, depth+1, seen); i != nil {
							return i, w
						}
					}
				}
			}
		}
		return nil, ""
	}
	// blocks reachable after an option call
	type pt struct {
		b *ssa.BasicBlock
		i int
	}
	var starts []pt
	for _, b := range ctor.Blocks {
		for i, ins := range b.Instrs {
			if isOptionCall(ins) {
				starts = append(starts, pt{b, i})
			}
		}
	}
	check := func(ins ssa.Instruction) (ssa.Instruction, string) {
		if st, ok := ins.(*ssa.Store); ok {
			if ok, what := inBaseNode(st.Addr); ok {
				return ins, what
			}
		}
		if ci, ok := ins.(ssa.CallInstruction); ok && !isOptionCall(ins) {
			if g := ci.Common().StaticCallee(); g != nil && !isSetterLike(g) {
				if i, w := writes(g, 1, map[*ssa.Function]bool{ctor: true}); i != nil {
					return ins, w + " (in " + g.Name() + ")"
				}
			}
		}
		return nil, ""
	}
	for _, s0 := range starts {
		for _, ins := range s0.b.Instrs[s0.i+1:] {
			if i, w := check(ins); i != nil {
				return i, w
			}
		}
		seen := map[*ssa.BasicBlock]bool{}
		work := append([]*ssa.BasicBlock(nil), s0.b.Succs...)
		for len(work) > 0 {
			b := work[len(work)-1]
			work = work[:len(work)-1]
			if seen[b] {
				continue
			}
			seen[b] = true
			for _, ins := range b.Instrs {
				if i, w := check(ins); i != nil {
					return i, w
				}
			}
			work = append(work, b.Succs...)
		}
	}
	return nil, ""
}

// isSetterLike: an option constructor (WithX) or another constructor: what it writes is an
// option's business, or concerns another node.
func isSetterLike(f *ssa.Function) bool {
	return strings.HasPrefix(f.Name(), "With") || strings.HasPrefix(f.Name(), "New")
}

// ctorMon follows a constructor: the loop classifying options into lists and the loops applying them.
type ctorMon struct {
	col  *Col
	name string
	opts *eng.Term
}
type ctorState struct {
	accepted     string // asserted types under which an option is kept
	lists        string // append sites of the classification loop
	pendingLists string // append sites whose list has not been applied yet
	bad          string
	loop         string // current application/classification loop id
	loopList     *eng.Term
	calls        int8
	appends      int8
	applied      string
	links        string // pairs of append sites feeding the same list variable
}

func (s ctorState) Key() string {
	return fmt.Sprintf("%s|%s|%s|%s|%s|%s|%d|%d|%s", s.accepted, s.lists, s.pendingLists, s.bad, s.loop, s.loopList.Key(), s.calls, s.appends, s.applied+"/"+s.links)
}
func (s ctorState) Terms() []*eng.Term {
	if s.loopList != nil {
		return []*eng.Term{s.loopList}
	}
	return nil
}
func (s ctorState) Rename(sub func(*eng.Term) *eng.Term) eng.MState {
	if s.loopList != nil {
		s.loopList = s.loopList.Map(sub)
	}
	return s
}
func (m *ctorMon) Name() string     { return "ctor" }
func (m *ctorMon) Init() eng.MState { return ctorState{} }

func addTok(set, tok string) string {
	for _, t := range strings.Split(set, ";") {
		if t == tok {
			return set
		}
	}
	return set + tok + ";"
}
func delTok(set, tok string) string {
	var out []string
	for _, t := range strings.Split(set, ";") {
		if t != "" && t != tok {
			out = append(out, t)
		}
	}
	if len(out) == 0 {
		return ""
	}
	return strings.Join(out, ";") + ";"
}

// elemOf: t is (an assertion/conversion of) element idx of list; returns list, idx.
func elemOf(t *eng.Term) (list, idx *eng.Term, asserted types.Type) {
	for t != nil {
		switch t.K {
		case eng.KTA:
			asserted = t.T
			t = t.A[0]
		case eng.KBox, eng.KConv:
			t = t.A[0]
		case eng.KLoad:
			if t.A[0].K == eng.KIndexAddr {
				return t.A[0].A[0], t.A[0].A[1], asserted
			}
			return nil, nil, nil
		default:
			return nil, nil, nil
		}
	}
	return nil, nil, nil
}

func (m *ctorMon) OnEvent(c *eng.Ctx, ms eng.MState, ev *eng.Event) eng.MState {
	s := ms.(ctorState)
	note := func(msg string) {
		if s.bad == "" {
			s.bad = m.name + ": " + msg + " (" + posStr(ev.Pos) + ")"
		}
	}
	ascending := func(idx *eng.Term) bool {
		k, _ := eng.AffParts(idx)
		if k == nil || k.K != eng.KSym {
			return false
		}
		if st, ok := c.E.IVStep[k.S]; ok && st != 1 {
			return false
		}
		return true
	}
	switch ev.Kind {
	case "loophead":
		if ev.Taken && ev.Site == s.loop {
			// an iteration ended
			if s.loopList != nil && s.calls != 1 {
				note(fmt.Sprintf("an iteration over the collected options applies %d of them (want exactly one)", s.calls))
			}
			if s.appends > 1 {
				note("an option is collected more than once")
			}
		}
		if !ev.Taken {
			s.loop, s.loopList = ev.Site, nil
		}
		s.calls, s.appends = 0, 0
	case "append":
		if len(ev.Args) == 2 {
			elems := c.E.SliceElems(c.St, ev.Args[1])
			if len(elems) == 1 {
				list, idx, at := elemOf(elems[0])
				if list == m.opts && at == nil {
					// interface assertions keep the value: take the established type from the facts
					el := eng.Load(eng.IndexAddr(list, idx))
					for atom, v := range c.St.Facts().Bools() {
						if v && atom.K == eng.KTAOk && atom.A[0] == el {
							at = atom.T
						}
					}
				}
				if list == m.opts && at != nil {
					if c.Eval(eng.TAOk(eng.Load(eng.IndexAddr(list, idx)), at)) != eng.TriTrue {
						note("an option is collected without its type having been established")
					}
					if !ascending(idx) {
						note("the options are not visited in ascending order")
					}
					s.accepted = addTok(s.accepted, types.TypeString(at, func(p *types.Package) string { return "" }))
					site := ev.Results[0].S
					s.lists = addTok(s.lists, site)
					s.pendingLists = addTok(s.pendingLists, site)
					if prev := ev.Args[0]; prev.K == eng.KMake && prev.S != site {
						a, b := prev.S, site
						if a > b {
							a, b = b, a
						}
						s.links = addTok(s.links, a+"~"+b)
					}
					if s.appends < 2 {
						s.appends++
					}
				} else if list != nil {
					note("a list of options is built from something other than the constructor's arguments")
				}
			}
		}
	case "call":
		// application: calling element idx of a list (function value or .apply)
		var fnT *eng.Term
		switch {
		case strings.HasPrefix(ev.Class, "dyn:"):
			fnT = ev.FnTerm
		case ev.Method != nil && ev.Method.Name() == "apply":
			fnT = ev.Recv
		}
		if fnT == nil {
			break
		}
		list, idx, _ := elemOf(fnT)
		if list == nil {
			note("an option of unknown origin is applied: " + fnT.Pretty())
			break
		}
		if !ascending(idx) {
			note("options are applied in an order other than their argument order (index " + idx.Pretty() + ")")
		}
		okList := list == m.opts
		if list.K == eng.KMake && strings.Contains(s.lists, list.S+";") {
			okList = true
			// every append site feeding the same list variable is settled by this application
			group := map[string]bool{list.S: true}
			for changed := true; changed; {
				changed = false
				for _, l := range strings.Split(s.links, ";") {
					ab := strings.Split(l, "~")
					if len(ab) == 2 && (group[ab[0]] != group[ab[1]]) {
						group[ab[0]], group[ab[1]] = true, true
						changed = true
					}
				}
			}
			for g := range group {
				s.pendingLists = delTok(s.pendingLists, g)
			}
		}
		if !okList {
			note("applied options come from " + list.Pretty() + ", not from the constructor's arguments")
		}
		s.loopList = list
		if s.calls < 2 {
			s.calls++
		}
	case "return":
		// lists that were appended to on this path must have been applied
	}
	return s
}

func checkDefaults(p *load.Program, r *Roles, col *Col, fn *ssa.Function, e *eng.Engine) {
	opts := eng.Param(0, fn.Params[0].Name())
	n := 0
	for _, rt := range e.Returns {
		if rt.Panic || len(rt.Vals) != 1 {
			continue
		}
		c := &eng.Ctx{E: e, St: rt.State}
		// only the path on which no option was supplied
		if c.Eval(eng.Bin("<", eng.ConstInt(0), eng.Len(opts))) != eng.TriFalse {
			continue
		}
		n++
		ok, why := defaultsOf(c, r, rt.Vals[0], 0)
		col.Check("C19.R5", fn.Name()+":defaults", ok, rt.Pos, "a node built without options must have the documented defaults (one attempt, no wait, sequential, continue-on-error, no functions): "+why, nil)
	}
	col.Check("C19.R5", fn.Name()+":defaults", n > 0, p.Position(fn.Pos()), "no path of the constructor corresponds to an empty option list", nil)
}

// defaultsOf walks the constructed object (through embedded pointers) to the BaseNode.
func defaultsOf(c *eng.Ctx, r *Roles, v *eng.Term, depth int) (bool, string) {
	if depth > 4 {
		return false, "no BaseNode found"
	}
	obj := c.Mem(v)
	if obj.K != eng.KStruct {
		return false, "object not built in the constructor: " + v.Pretty()
	}
	if r.BaseNode != nil && types.Identical(obj.T, r.BaseNode) {
		return baseNodeDefaults(r, obj)
	}
	found := false
	for i, f := range obj.A {
		st, _ := obj.T.Underlying().(*types.Struct)
		if st != nil && i < st.NumFields() {
			if _, isFn := st.Field(i).Type().Underlying().(*types.Signature); isFn {
				if f.K != eng.KNil {
					return false, st.Field(i).Name() + " is set: " + f.Pretty()
				}
				continue
			}
		}
		if f.K == eng.KAlloc {
			ok, why := defaultsOf(c, r, f, depth+1)
			if !ok {
				return false, why
			}
			found = true
		}
	}
	if !found {
		return false, "no embedded node found"
	}
	return true, ""
}

func checkGetters(p *load.Program, r *Roles, col *Col, res *UnitResult, run func(*ssa.Function, []*eng.Term, Mode, ...eng.Monitor) *eng.Engine) {
	if r.BaseNode == nil {
		return
	}
	leaves := getterLeaves(p, r)
	for _, g := range []string{"GetMaxRetries", "GetWait", "GetBatchConcurrency", "GetBatchErrorHandling"} {
		fn := p.DeclaredMethod("BaseNode", g)
		lf := leaves[g]
		if fn == nil || lf.key == "" {
			col.Unproven("C19.R5"+map[string]string{"GetBatchConcurrency": ",C08.R6", "GetMaxRetries": ",C02.R1", "GetWait": ",C20.R1", "GetBatchErrorHandling": ",C07.R6,C09.R5"}[g], "BaseNode."+g+":identity", p.Position(0), "getter not found, or it does not return one field of the node unchanged on its paths", nil)
			continue
		}
		e := run(fn, nil, Mode{}, &unlockMon{col: col, label: "BaseNode." + g})
		field := lf.load(eng.Param(0, fn.Params[0].Name()))
		for _, rt := range e.Returns {
			if !rt.Panic && (&eng.Ctx{E: e, St: rt.State}).IsNil(eng.Param(0, fn.Params[0].Name())) == eng.TriTrue {
				continue // a guard for a nil receiver: no node, nothing the properties speak about
			}
			if rt.Panic || len(rt.Vals) != 1 {
				col.Check("C19.R5", "BaseNode."+g+":identity", false, rt.Pos, "getter panics", nil)
				continue
			}
			c := &eng.Ctx{E: e, St: rt.State}
			v := rt.Vals[0]
			ok := v == field
			if g == "GetBatchErrorHandling" && !ok {
				// the unset mode reads as "continue"
				s, isC := v.StringConst()
				ok = isC && s == "continue" && c.Eval(eng.Bin("==", field, eng.ConstString(""))) == eng.TriTrue
				col.Check("C19.R6", "BaseNode."+g+":default-mode", ok, rt.Pos, "an unset error-handling mode must read as \"continue\", got "+v.Pretty(), nil)
				continue
			}
			rule := "C19.R5"
			switch g {
			case "GetBatchConcurrency":
				rule += ",C08.R6"
			case "GetMaxRetries":
				rule += ",C02.R1"
			case "GetWait":
				rule += ",C20.R1"
			}
			col.Check(rule, "BaseNode."+g+":identity", ok, rt.Pos, "the getter must return the configured field, got "+v.Pretty(), nil)
		}
	}
}

// wrapperSignature is a canonical description of what a wrapper closure does:
// per explored path the branch conditions, the calls of captured functions with
// their arguments, and the results, all written over the closure's own parameters
// ($p<i>), its captured variables ($fn<i>) and the results of the captured calls
// ($u<call>.<k>). Two construction forms install equivalent wrappers exactly when
// the signatures coincide (C19.R1).
func wrapperSignature(p *load.Program, r *Roles, res *UnitResult, w *ssa.Function) string {
	free := make([]*eng.Term, len(w.FreeVars))
	for i, fv := range w.FreeVars {
		free[i] = eng.Free(i, fv.Name())
	}
	paths := exploreAdapter(p, r, res, w, Mode{}, free, nil, nil, "C19.ENGINE")
	var lines []string
	for _, pth := range paths {
		sub := map[*eng.Term]*eng.Term{}
		for i := range free {
			sub[free[i]] = eng.Sym(fmt.Sprintf("$fn%d", i), 0)
			sub[eng.Load(free[i])] = sub[free[i]]
		}
		for i, prm := range w.Params {
			sub[eng.Param(i, prm.Name())] = eng.Sym(fmt.Sprintf("$p%d", i), 0)
		}
		for j, uc := range pth.calls {
			for k, rt := range uc.res {
				sub[rt] = eng.Sym(fmt.Sprintf("$u%d.%d", j, k), 0)
			}
		}
		canon := func(t *eng.Term) string {
			if t == nil {
				return "_"
			}
			if s, ok := sub[t]; ok {
				return s.Pretty()
			}
			return t.Map(func(n *eng.Term) *eng.Term {
				if s, ok := sub[n]; ok {
					return s
				}
				if n.K == eng.KZero {
					if st, ok := n.T.Underlying().(*types.Struct); ok {
						fs := make([]*eng.Term, st.NumFields())
						for i := range fs {
							ft := st.Field(i).Type().Underlying()
							switch ft.(type) {
							case *types.Interface, *types.Pointer, *types.Slice, *types.Map, *types.Signature, *types.Chan:
								fs[i] = eng.Nil()
							default:
								fs[i] = eng.Zero(st.Field(i).Type())
							}
						}
						return eng.Struct(n.T, fs)
					}
				}
				return nil
			}).Pretty()
		}
		var conds []string
		for atom, v := range pth.st.Facts().Bools() {
			c := canon(atom)
			if !strings.Contains(c, "$") {
				continue
			}
			if !v {
				c = "!" + c
			}
			conds = append(conds, c)
		}
		sort.Strings(conds)
		var calls []string
		for _, uc := range pth.calls {
			var as []string
			for _, a := range uc.args {
				as = append(as, canon(a))
			}
			cls := uc.class
			if i := strings.Index(cls, ":"); i >= 0 {
				cls = cls[:i]
			}
			calls = append(calls, cls+"("+strings.Join(as, ",")+")")
		}
		// results: a value known to be nil on this path is nil, however it is spelled
		knownNil := func(t *eng.Term) *eng.Term {
			if t != nil && t.K != eng.KNil && pth.e.Eval(pth.st.Facts(), eng.Bin("==", t, eng.Nil())) == eng.TriTrue {
				return eng.Nil()
			}
			return t
		}
		var rets []string
		for _, rt := range pth.rets {
			rt = knownNil(rt)
			if rt.K == eng.KStruct {
				fs := make([]*eng.Term, len(rt.A))
				for i, f := range rt.A {
					fs[i] = knownNil(f)
				}
				rt = eng.Struct(rt.T, fs)
			}
			rets = append(rets, canon(rt))
		}
		line := strings.Join(conds, "&") + " : " + strings.Join(calls, ";") + " -> " + strings.Join(rets, ",")
		if pth.panic {
			line += " PANIC"
		}
		lines = append(lines, line)
	}
	sort.Strings(lines)
	var out []string
	for i, l := range lines {
		if i == 0 || l != lines[i-1] {
			out = append(out, l)
		}
	}
	return strings.Join(out, " || ")
}

// unlockMon: a getter never releases a lock it does not hold (sync makes that a fatal
// error, i.e. every run that reads the configuration would crash).
type unlockMon struct {
	col   *Col
	label string
}
type heldState struct{ r, w int }

func (s heldState) Key() string                                 { return fmt.Sprintf("%d,%d", s.r, s.w) }
func (s heldState) Terms() []*eng.Term                          { return nil }
func (s heldState) Rename(func(*eng.Term) *eng.Term) eng.MState { return s }
func (m *unlockMon) Name() string                               { return "unlock" }
func (m *unlockMon) Init() eng.MState                           { return heldState{} }
func (m *unlockMon) OnEvent(c *eng.Ctx, ms eng.MState, ev *eng.Event) eng.MState {
	s := ms.(heldState)
	if ev.Kind == "return" {
		m.col.Check("C19.R5", m.label+":unlock", s.r == 0 && s.w == 0, ev.Pos, "the getter returns while still holding the node's lock: the next setter (or, for a write lock, the next getter) blocks forever", pathIf(s.r != 0 || s.w != 0, c))
		return s
	}
	if ev.Kind != "call" {
		return s
	}
	switch ev.Class {
	case "rlock":
		if s.r < 2 {
			s.r++
		}
	case "lock":
		if s.w < 2 {
			s.w++
		}
	case "runlock":
		m.col.Check("C19.R5", m.label+":unlock", s.r > 0, ev.Pos, "the getter releases a read lock it does not hold (fatal error at run time)", pathIf(s.r == 0, c))
		if s.r > 0 {
			s.r--
		}
	case "unlock":
		m.col.Check("C19.R5", m.label+":unlock", s.w > 0, ev.Pos, "the getter releases a lock it does not hold (fatal error at run time)", pathIf(s.w == 0, c))
		if s.w > 0 {
			s.w--
		}
	}
	return s
}

// getterLeaf is the location a configuration getter reads: the path of field indexes
// from the BaseNode and its name "<struct type>.<field>" (the innermost struct).
type getterLeaf struct {
	path []int
	key  string
}

func (l getterLeaf) load(recv *eng.Term) *eng.Term {
	a := recv
	for _, i := range l.path {
		a = eng.FieldAddr(a, i)
	}
	return eng.Load(a)
}

// at reads the leaf out of a constructed BaseNode struct term.
func (l getterLeaf) at(obj *eng.Term) *eng.Term {
	v := obj
	for _, i := range l.path {
		if v != nil && v.K == eng.KZero && v.T != nil {
			// an embedded struct left at its zero value
			if st, ok := v.T.Underlying().(*types.Struct); ok && i < st.NumFields() {
				v = eng.ZeroOf(st.Field(i).Type())
				continue
			}
		}
		if v == nil || v.K != eng.KStruct || i >= len(v.A) {
			return nil
		}
		v = v.A[i]
	}
	return v
}

// getterLeaves finds, for each configuration getter of BaseNode, the one location all its
// non-constant results are loaded from (no field names are assumed).
func getterLeaves(p *load.Program, r *Roles) map[string]getterLeaf {
	out := map[string]getterLeaf{}
	if r.BaseNode == nil {
		return out
	}
	for _, g := range []string{"GetMaxRetries", "GetWait", "GetBatchConcurrency", "GetBatchErrorHandling"} {
		fn := p.DeclaredMethod("BaseNode", g)
		if fn == nil || len(fn.Params) != 1 {
			continue
		}
		e := eng.New(eng.Config{Prog: p.Prog, Pkg: p.SSA, Fset: p.Fset, Root: fn, MaxDepth: 8, MaxStates: 5000, Classify: r.Classifier(Mode{}), KeepFacts: true})
		e.Run()
		recv := eng.Param(0, fn.Params[0].Name())
		var leaf *eng.Term
		ok := true
		for _, rt := range e.Returns {
			if rt.Panic || len(rt.Vals) != 1 {
				continue
			}
			v := rt.Vals[0]
			if v.K == eng.KConst {
				continue // a documented default
			}
			if v.K != eng.KLoad {
				ok = false
				continue
			}
			if leaf == nil {
				leaf = v
			} else if leaf != v {
				ok = false
			}
		}
		if !ok || leaf == nil {
			continue
		}
		// address -> path of field indexes down from the receiver
		var path []int
		a := leaf.A[0]
		for a.K == eng.KFieldAddr {
			path = append([]int{int(a.I)}, path...)
			a = a.A[0]
		}
		if a != recv || len(path) == 0 {
			continue
		}
		var t types.Type = r.BaseNode
		key := ""
		for _, i := range path {
			st, isS := t.Underlying().(*types.Struct)
			if !isS || i >= st.NumFields() {
				key = ""
				break
			}
			tn := "?"
			if nt, ok := t.(*types.Named); ok {
				tn = nt.Obj().Name()
			}
			key = tn + "." + st.Field(i).Name()
			t = st.Field(i).Type()
		}
		if key != "" {
			out[g] = getterLeaf{path: path, key: key}
		}
	}
	return out
}
