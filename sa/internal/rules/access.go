package rules

import (
	"fmt"
	"go/token"
	"go/types"
	"strings"

	"flytsa/internal/eng"
	"flytsa/internal/load"

	"golang.org/x/tools/go/ssa"
)

// reflect.Kind values (frozen from the reflect package documentation).
const (
	kInvalid = 0
	kArray   = 17
	kChan    = 18
	kFunc    = 19
	kIface   = 20
	kMap     = 21
	kPtr     = 22
	kSlice   = 23
	kString  = 24
	kUnsafe  = 26
)

// ReflectMon checks the preconditions of reflect calls on every path (the
// frozen table of DESIGN.md §3.5): a call whose precondition is not implied
// by the path facts may panic.
type ReflectMon struct {
	Col   *Col
	Rule  string
	Label string
}

func (m *ReflectMon) Name() string     { return "reflect" }
func (m *ReflectMon) Init() eng.MState { return unitState{} }

func kindTerm(rv *eng.Term) *eng.Term { return eng.Pure("(reflect.Value).Kind", 0, rv) }

func kindIn(c *eng.Ctx, rv *eng.Term, kinds ...int64) bool {
	kt := kindTerm(rv)
	for _, k := range kinds {
		if c.Eval(eng.Bin("==", kt, eng.ConstInt(k))) == eng.TriTrue {
			return true
		}
	}
	return false
}

func kindKnownValid(c *eng.Ctx, rv *eng.Term) bool {
	// some positive kind is established, or Invalid is excluded
	if c.Eval(eng.Bin("==", kindTerm(rv), eng.ConstInt(kInvalid))) == eng.TriFalse {
		return true
	}
	for k := int64(1); k <= 26; k++ {
		if c.Eval(eng.Bin("==", kindTerm(rv), eng.ConstInt(k))) == eng.TriTrue {
			return true
		}
	}
	return false
}

// derivedFromValueOf: the reflect.Value comes from ValueOf/Index/Elem (never from a struct field: CanInterface holds).
func derivedFromValueOf(rv *eng.Term) bool {
	for rv != nil && rv.K == eng.KPure {
		switch rv.S {
		case "reflect.ValueOf":
			return true
		case "(reflect.Value).Index", "(reflect.Value).Elem":
			rv = rv.A[0]
		default:
			return false
		}
	}
	return false
}

func (m *ReflectMon) OnEvent(c *eng.Ctx, ms eng.MState, ev *eng.Event) eng.MState {
	if ev.Kind != "call" || ev.Callee == nil && !strings.HasPrefix(ev.Class, "reflect.Type.") {
		return ms
	}
	name := ""
	if ev.Callee != nil {
		name = eng.CalleeName(ev.Callee)
	} else {
		name = ev.Class
	}
	if !strings.Contains(name, "reflect") {
		return ms
	}
	chk := func(ok bool, msg string) {
		m.Col.Check(m.Rule, m.Label+":"+name, ok, ev.Pos, msg, pathIf(!ok, c))
	}
	arg := func(i int) *eng.Term {
		if i < len(ev.Args) {
			return ev.Args[i]
		}
		return eng.Unknown("noarg")
	}
	switch name {
	case "reflect.ValueOf", "reflect.TypeOf", "(reflect.Value).Kind", "(reflect.Value).IsValid":
		chk(true, "")
	case "(reflect.Value).Len":
		chk(kindIn(c, arg(0), kArray, kChan, kMap, kSlice, kString), "reflect.Value.Len on a value whose kind is not established as array/chan/map/slice/string: panics for other kinds")
	case "(reflect.Value).Index":
		okK := kindIn(c, arg(0), kArray, kSlice, kString)
		okI := c.Eval(eng.Bin("<", arg(1), eng.Pure("(reflect.Value).Len", 0, arg(0)))) == eng.TriTrue
		chk(okK && okI, "reflect.Value.Index without an established slice/array kind and index < Len()")
	case "(reflect.Value).Interface":
		chk(derivedFromValueOf(arg(0)), "reflect.Value.Interface on a value not obtained from ValueOf/Index/Elem (may be unexported: panic)")
	case "(reflect.Value).IsNil":
		chk(kindIn(c, arg(0), kChan, kFunc, kIface, kMap, kPtr, kSlice, kUnsafe), "reflect.Value.IsNil on a value whose kind is not established as nil-able: panics for other kinds")
	case "(reflect.Value).Elem":
		chk(kindIn(c, arg(0), kIface, kPtr), "reflect.Value.Elem on a value whose kind is not established as pointer/interface")
	case "(reflect.Value).Type":
		chk(kindKnownValid(c, arg(0)), "reflect.Value.Type on a possibly invalid (zero) Value: panics for ValueOf(nil)")
	case "reflect.Type.Elem":
		base := ev.Recv
		ok := false
		if base != nil && base.K == eng.KPure && base.S == "(reflect.Value).Type" {
			ok = kindIn(c, base.A[0], kArray, kChan, kMap, kPtr, kSlice)
		}
		chk(ok, "reflect.Type.Elem on a type whose kind is not established as array/chan/map/pointer/slice")
	case "(reflect.Value).Set":
		dst, src := arg(0), arg(1)
		ok, why := false, "destination is not Elem() of a pointer value"
		if dst.K == eng.KPure && dst.S == "(reflect.Value).Elem" {
			rv := dst.A[0]
			nonNil := c.Eval(eng.Pure("(reflect.Value).IsNil", 0, rv)) == eng.TriFalse
			isPtr := kindIn(c, rv, kPtr)
			sameT := false
			if src.K == eng.KPure && src.S == "reflect.ValueOf" {
				want := eng.Pure("reflect.Type.Elem", 0, eng.Pure("(reflect.Value).Type", 0, rv))
				sameT = c.Eval(eng.Bin("==", eng.Pure("reflect.TypeOf", 0, src.A[0]), want)) == eng.TriTrue
			}
			ok = nonNil && isPtr && sameT
			why = fmt.Sprintf("pointer kind established: %v, non-nil established: %v, identical types established: %v", isPtr, nonNil, sameT)
		}
		chk(ok, "reflect.Value.Set may panic: "+why)
	default:
		if strings.HasPrefix(name, "(reflect.Value).") || strings.HasPrefix(name, "reflect.Type.") {
			chk(false, "reflect call "+name+" is not in the table of calls with known preconditions")
		}
	}
	return ms
}

// --- static may-panic scan --------------------------------------------------------

func hasIface(t types.Type, depth int) bool {
	if depth > 4 {
		return true
	}
	switch u := t.Underlying().(type) {
	case *types.Interface:
		return true
	case *types.Struct:
		for i := 0; i < u.NumFields(); i++ {
			if hasIface(u.Field(i).Type(), depth+1) {
				return true
			}
		}
	case *types.Array:
		return hasIface(u.Elem(), depth+1)
	}
	return false
}

func isNilConst(v ssa.Value) bool {
	c, ok := v.(*ssa.Const)
	return ok && c.Value == nil
}

// mayPanicScan lists instructions of fn (and of its in-package static
// callees) that can panic regardless of path conditions.
func mayPanicScan(p *load.Program, root *ssa.Function, allowExplicitPanic bool) []string {
	var out []string
	seen := map[*ssa.Function]bool{}
	var visit func(fn *ssa.Function)
	visit = func(fn *ssa.Function) {
		if fn == nil || seen[fn] || len(fn.Blocks) == 0 {
			return
		}
		seen[fn] = true
		for _, b := range fn.Blocks {
			if b == fn.Recover {
				continue
			}
			for _, ins := range b.Instrs {
				pos := posStr(p.Position(ins.Pos()))
				add := func(msg string) { out = append(out, funcLabel(fn)+" "+pos+": "+msg) }
				switch x := ins.(type) {
				case *ssa.TypeAssert:
					if !x.CommaOk {
						add("type assertion without comma-ok panics for other dynamic types")
					}
				case *ssa.BinOp:
					if (x.Op == token.EQL || x.Op == token.NEQ) && !isNilConst(x.X) && !isNilConst(x.Y) {
						if hasIface(x.X.Type(), 0) && hasIface(x.Y.Type(), 0) && !isNamed(x.X.Type(), "reflect", "Type") {
							add("comparison of two interface values panics when the dynamic type is not comparable (maps, slices, funcs, structs containing them)")
						}
					}
					if (x.Op == token.QUO || x.Op == token.REM) && isInt(x.X.Type()) {
						if _, isC := x.Y.(*ssa.Const); !isC {
							add("integer division by a non-constant")
						}
					}
				case *ssa.Lookup:
					if mt, ok := x.X.Type().Underlying().(*types.Map); ok && hasIface(mt.Key(), 0) {
						add("map lookup with an interface-typed key panics for unhashable keys")
					}
				case *ssa.MapUpdate:
					if mt, ok := x.Map.Type().Underlying().(*types.Map); ok && hasIface(mt.Key(), 0) {
						add("map update with an interface-typed key panics for unhashable keys")
					}
					if isNilConst(x.Map) {
						add("assignment to a nil map")
					}
				case *ssa.Panic:
					if !allowExplicitPanic {
						add("explicit panic")
					}
				case *ssa.Send:
					add("channel send (panics on a closed channel)")
				case *ssa.IndexAddr:
					if !indexSafe(x.X, x.Index, x) {
						add("index expression not covered by a dominating bounds test")
					}
				case *ssa.Index:
					if !indexSafe(x.X, x.Index, x) {
						add("index expression not covered by a dominating bounds test")
					}
				case *ssa.Slice:
					if x.Low != nil || x.High != nil || x.Max != nil {
						add("slice expression with bounds")
					}
				case *ssa.SliceToArrayPointer:
					add("slice to array pointer conversion")
				case ssa.CallInstruction:
					if c := x.Common().StaticCallee(); c != nil && (c.Pkg == p.SSA || c.Parent() != nil) {
						visit(c)
					}
					if b, ok := x.Common().Value.(*ssa.Builtin); ok && b.Name() == "close" {
						add("close of a channel")
					}
				}
			}
		}
	}
	visit(root)
	return out
}

// indexSafe recognises the bounds idioms used in the package.
func indexSafe(xs, idx ssa.Value, at ssa.Instruction) bool {
	// constant index into a (pointer to) array
	if c, ok := idx.(*ssa.Const); ok {
		t := xs.Type().Underlying()
		if pt, ok := t.(*types.Pointer); ok {
			t = pt.Elem().Underlying()
		}
		if arr, ok := t.(*types.Array); ok {
			if c.Value != nil {
				if i, exact := constInt64(c); exact && i >= 0 && i < arr.Len() {
					return true
				}
			}
		}
		return false
	}
	// the index is a header phi every incoming value of which was tested < L on its edge (rotated loops:
	// pre-test on the initial value, bottom test on the incremented value)
	if phi, ok := idx.(*ssa.Phi); ok && phiBoundedBy(phi, xs) {
		return true
	}
	// idx < L on a dominating true edge, idx >= 0 by construction (an ascending induction variable from >= 0)
	blk := at.Block()
	for d := blk; d != nil; d = d.Idom() {
		for _, pred := range d.Preds {
			ifi, ok := pred.Instrs[len(pred.Instrs)-1].(*ssa.If)
			if !ok || pred.Succs[0] != d || !d.Dominates(blk) {
				continue
			}
			cmp, ok := ifi.Cond.(*ssa.BinOp)
			if !ok || cmp.Op != token.LSS || cmp.X != idx {
				continue
			}
			if lenCovers(cmp.Y, xs) && nonNegIV(idx) {
				return true
			}
		}
	}
	return false
}

// phiBoundedBy: every edge into the phi comes from a block ending in `if v < L` (true edge to the phi's
// block) where v is the edge's value (or a constant >= 0 tested as c < L) and L is the length of xs.
func phiBoundedBy(phi *ssa.Phi, xs ssa.Value) bool {
	blk := phi.Block()
	for i, pred := range blk.Preds {
		v := phi.Edges[i]
		ifi, ok := pred.Instrs[len(pred.Instrs)-1].(*ssa.If)
		if !ok || pred.Succs[0] != blk {
			return false
		}
		cmp, ok := ifi.Cond.(*ssa.BinOp)
		if !ok || cmp.Op != token.LSS || !lenCovers(cmp.Y, xs) {
			return false
		}
		if cmp.X != v {
			// constants: the tested constant equals the edge constant
			a, b := affOf(cmp.X, 0), affOf(v, 0)
			if !(a.ok && b.ok && a.sym == nil && b.sym == nil && a.c == b.c && a.c >= 0) {
				return false
			}
		}
		// values stay non-negative: constant >= 0 or phi + positive constant
		av := affOf(v, 0)
		if !av.ok {
			return false
		}
		if av.sym == nil {
			if av.c < 0 {
				return false
			}
		} else if av.sym != ssa.Value(phi) || av.c <= 0 {
			return false
		}
	}
	return len(blk.Preds) > 0
}

func constInt64(c *ssa.Const) (int64, bool) {
	a := affOf(c, 0)
	return a.c, a.ok && a.sym == nil
}

// nonNegIV: idx is phi+1 with phi starting at -1, or a phi starting at a constant >= 0, stepping upwards.
func nonNegIV(idx ssa.Value) bool {
	a := affOf(idx, 0)
	if !a.ok {
		return false
	}
	phi, ok := a.sym.(*ssa.Phi)
	if !ok {
		return false
	}
	for i, e := range phi.Edges {
		pred := phi.Block().Preds[i]
		if phi.Block().Dominates(pred) { // back edge
			b := affOf(e, 0)
			if !b.ok || b.sym != ssa.Value(phi) || b.c <= 0 {
				return false
			}
		} else {
			b := affOf(e, 0)
			if !b.ok || b.sym != nil || b.c+a.c < 0 {
				return false
			}
		}
	}
	return true
}

// lenCovers: bound is the length of xs, or of the value xs was made with the length of.
func lenCovers(bound, xs ssa.Value) bool {
	lenArg := func(v ssa.Value) (ssa.Value, string, bool) {
		call, ok := v.(*ssa.Call)
		if !ok {
			return nil, "", false
		}
		if b, ok := call.Call.Value.(*ssa.Builtin); ok && b.Name() == "len" && len(call.Call.Args) == 1 {
			return call.Call.Args[0], "len", true
		}
		if c := call.Call.StaticCallee(); c != nil && eng.CalleeName(c) == "(reflect.Value).Len" && len(call.Call.Args) == 1 {
			return call.Call.Args[0], "rlen", true
		}
		return nil, "", false
	}
	if mk, ok := xs.(*ssa.MakeSlice); ok && mk.Len == bound {
		if _, isConst := bound.(*ssa.Const); !isConst {
			return true // made with exactly this length value
		}
	}
	src, kind, ok := lenArg(bound)
	if !ok {
		return false
	}
	if kind == "len" && src == xs {
		return true
	}
	if mk, ok := xs.(*ssa.MakeSlice); ok {
		if s2, k2, ok := lenArg(mk.Len); ok && k2 == kind && s2 == src {
			return true
		}
	}
	return false
}

// --- accessor families --------------------------------------------------------------

type accSpec struct {
	family string
	target types.Type   // result type
	okFor  []types.Type // dynamic types for which the accessor succeeds
	conv   bool         // value is Go's conversion of the asserted value (numeric families)
	slice  bool         // slice family: also succeeds for every other slice kind, via ToSlice
}

var numericKinds = []types.BasicKind{types.Int, types.Int8, types.Int16, types.Int32, types.Int64, types.Uint, types.Uint8, types.Uint16, types.Uint32, types.Uint64, types.Float32, types.Float64}

func numericTypes() []types.Type {
	var out []types.Type
	for _, k := range numericKinds {
		out = append(out, types.Typ[k])
	}
	return out
}

func anyType() types.Type { return types.NewInterfaceType(nil, nil) }

func accSpecs() []accSpec {
	anyT := types.Universe.Lookup("any").Type()
	return []accSpec{
		{family: "String", target: types.Typ[types.String], okFor: []types.Type{types.Typ[types.String]}},
		{family: "Bool", target: types.Typ[types.Bool], okFor: []types.Type{types.Typ[types.Bool]}},
		{family: "Int", target: types.Typ[types.Int], okFor: numericTypes(), conv: true},
		{family: "Float64", target: types.Typ[types.Float64], okFor: numericTypes(), conv: true},
		{family: "Map", target: types.NewMap(types.Typ[types.String], anyT), okFor: []types.Type{types.NewMap(types.Typ[types.String], anyT)}},
		{family: "Slice", target: types.NewSlice(anyT), okFor: []types.Type{types.NewSlice(anyT)}, slice: true},
	}
}

// probe types: the documented source types plus others that must be rejected.
func probeTypes() []types.Type {
	anyT := types.Universe.Lookup("any").Type()
	out := numericTypes()
	out = append(out, types.Typ[types.String], types.Typ[types.Bool], types.Typ[types.Uintptr], types.Typ[types.Complex128], types.Typ[types.Complex64],
		types.NewSlice(anyT), types.NewMap(types.Typ[types.String], anyT), types.NewSlice(types.Typ[types.String]), types.NewSlice(types.Typ[types.Int]))
	return out
}

type scenario struct {
	name      string
	found     bool
	isNil     bool
	dyn       types.Type // nil: some type outside the probe list
	kindSlice bool
}

func typeIn(t types.Type, ts []types.Type) bool {
	for _, x := range ts {
		if types.Identical(t, x) {
			return true
		}
	}
	return false
}

// accessor variant kinds
const (
	vPlain = iota // (value, ok)
	vOr           // value or default parameter
	vZero         // value or zero
	vMust         // value or panic
)

type accessor struct {
	name    string
	fn      *ssa.Function
	spec    accSpec
	variant int
	store   bool
}

// pathInfo is one explored path of an accessor.
type pathInfo struct {
	rets  []*eng.Term
	panic bool
	st    *eng.State
	pos   token.Position
}

// AnalyzeAccessors decides C15.
func AnalyzeAccessors(p *load.Program, r *Roles, depth int) *UnitResult {
	res := &UnitResult{Col: NewCol()}
	col := res.Col
	if r.Result == nil || r.SharedStore == nil {
		col.Unproven("C15.R0", "types", p.Position(0), "Result / SharedStore not found", nil)
		return res
	}
	getFn := p.Method("SharedStore", "Get")
	pure := map[*ssa.Function]string{}
	if getFn != nil {
		pure[getFn] = "Get"
	}
	if r.FnToSlice != nil {
		pure[r.FnToSlice] = "ToSlice"
	}
	var accs []accessor
	for _, sp := range accSpecs() {
		for _, v := range []struct {
			pat     string
			variant int
			store   bool
		}{{"As%s", vPlain, false}, {"As%sOr", vOr, false}, {"Must%s", vMust, false}, {"Get%s", vZero, true}, {"Get%sOr", vOr, true}} {
			name := fmt.Sprintf(v.pat, sp.family)
			tn := "Result"
			if v.store {
				tn = "SharedStore"
			}
			fn := p.Method(tn, name)
			if fn == nil {
				col.Unproven("C15.R4", tn+"."+name+":table", p.Position(0), "accessor "+tn+"."+name+" not found", nil)
				continue
			}
			accs = append(accs, accessor{name: tn + "." + name, fn: fn, spec: sp, variant: v.variant, store: v.store})
		}
	}
	for _, a := range accs {
		// R1 static may-panic scan (Must variants may panic explicitly, by contract)
		issues := mayPanicScan(p, a.fn, a.variant == vMust)
		col.Check("C15.R1", a.name+":may-panic", len(issues) == 0, p.Position(a.fn.Pos()), "the accessor can panic: "+strings.Join(issues, "; "), nil)
		// explore
		var e *eng.Engine
		rm := &ReflectMon{Col: col, Rule: "C15.R1", Label: a.name}
		cfg := eng.Config{Prog: p.Prog, Pkg: p.SSA, Fset: p.Fset, Root: a.fn, MaxDepth: depth, MaxStates: 20000,
			Classify: r.Classifier(Mode{PureFns: pure}), Monitors: []eng.Monitor{rm}, KeepFacts: true}
		e = eng.New(cfg)
		e.Run()
		res.Stats.add(e, a.fn)
		for _, pr := range e.SortedProblems() {
			col.Unproven("C15.ENGINE", "engine:"+a.name+":"+pr.Kind, pr.Pos, pr.Msg, nil)
		}
		var paths []pathInfo
		for _, rt := range e.Returns {
			paths = append(paths, pathInfo{rets: rt.Vals, panic: rt.Panic, st: rt.State, pos: rt.Pos})
		}
		checkAccessor(p, col, e, a, paths)
	}
	// ToSlice itself and the generic As
	analyzeToSlice(p, r, res, depth)
	if fn := p.Func("As"); fn != nil {
		issues := mayPanicScan(p, fn, false)
		col.Check("C15.R1", "As:may-panic", len(issues) == 0, p.Position(fn.Pos()), "As can panic: "+strings.Join(issues, "; "), nil)
	}
	for _, name := range []string{"IsNil", "Type", "Value", "IsError", "Error"} {
		if fn := p.Method("Result", name); fn != nil {
			issues := mayPanicScan(p, fn, false)
			col.Check("C15.R1", "Result."+name+":may-panic", len(issues) == 0, p.Position(fn.Pos()), "can panic: "+strings.Join(issues, "; "), nil)
		}
	}
	checkResultCtors(p, r, res, "C15.R8", "C15.ENGINE")
	return res
}

// valuation of the atoms an accessor may branch on, for one scenario
type valuation struct {
	val, found *eng.Term
	sc         scenario
}

func (v valuation) eval(atom *eng.Term) (bool, bool) {
	switch {
	case v.found != nil && atom == v.found:
		return v.sc.found, true
	case atom.K == eng.KBin && atom.S == "==" && atom.A[0] == v.val && atom.A[1].K == eng.KNil:
		return v.sc.isNil, true
	case atom.K == eng.KTAOk && atom.A[0] == v.val:
		if v.sc.isNil || v.sc.dyn == nil {
			return false, true
		}
		if types.IsInterface(atom.T) {
			return types.Implements(v.sc.dyn, atom.T.Underlying().(*types.Interface)), true
		}
		return types.Identical(v.sc.dyn, atom.T), true
	case atom.K == eng.KBin && atom.S == "==" && atom.A[0] == kindTerm(eng.Pure("reflect.ValueOf", 0, v.val)) && atom.A[1].IsConstInt():
		k := atom.A[1].I
		if v.sc.isNil {
			return k == kInvalid, true
		}
		if k == kSlice {
			return v.sc.kindSlice, true
		}
		if v.sc.kindSlice {
			return false, true
		}
		return false, false
	}
	return false, false
}

func checkAccessor(p *load.Program, col *Col, e *eng.Engine, a accessor, paths []pathInfo) {
	fn := a.fn
	var val, found, def *eng.Term
	if a.store {
		recv := eng.Param(0, fn.Params[0].Name())
		key := eng.Param(1, fn.Params[1].Name())
		val, found = eng.Pure("Get", 0, recv, key), eng.Pure("Get", 1, recv, key)
		if a.variant == vOr && len(fn.Params) == 3 {
			def = eng.Param(2, fn.Params[2].Name())
		}
	} else {
		// Result has its value as first field
		val = eng.Field(eng.Param(0, fn.Params[0].Name()), 0)
		if a.variant == vOr && len(fn.Params) == 2 {
			def = eng.Param(1, fn.Params[1].Name())
		}
	}
	boxedVal := val
	con := a.name + ":table"
	// scenarios
	var scs []scenario
	founds := []bool{true}
	if a.store {
		founds = []bool{false, true}
	}
	for _, f := range founds {
		if !f {
			scs = append(scs, scenario{name: "key absent", found: false})
			continue
		}
		scs = append(scs, scenario{name: "nil value", found: true, isNil: true})
		for _, t := range probeTypes() {
			_, isSl := t.Underlying().(*types.Slice)
			scs = append(scs, scenario{name: "dynamic type " + t.String(), found: true, dyn: t, kindSlice: isSl})
		}
		scs = append(scs, scenario{name: "another non-slice type", found: true})
		scs = append(scs, scenario{name: "another slice type", found: true, kindSlice: true})
	}
	covered := make([]bool, len(paths))
	for _, sc := range scs {
		v := valuation{val: val, found: found, sc: sc}
		// expected outcome
		wantOK := false
		var wantVal *eng.Term
		if sc.found && !sc.isNil {
			switch {
			case sc.dyn != nil && typeIn(sc.dyn, a.spec.okFor):
				wantOK = true
				wantVal = eng.TA(val, sc.dyn)
				if a.spec.conv && !types.Identical(sc.dyn, a.spec.target) {
					wantVal = eng.Conv(a.spec.target, eng.TA(val, sc.dyn))
				}
			case a.spec.slice && sc.kindSlice:
				wantOK = true
				wantVal = eng.Pure("ToSlice", 0, boxedVal)
			}
		}
		// matching paths
		var outs []pathInfo
		ambiguous := ""
		for pi, pth := range paths {
			consistent := true
			for atom, tv := range pth.st.Facts().Bools() {
				ev, known := v.eval(atom)
				if !known {
					// atoms about other things (e.g. the default parameter) do not restrict the scenario
					if mentions(atom, val) || (found != nil && mentions(atom, found)) {
						ambiguous = atom.Pretty()
					}
					continue
				}
				if ev != tv {
					consistent = false
					break
				}
			}
			if consistent {
				outs = append(outs, pth)
				covered[pi] = true
			}
		}
		label := sc.name
		if len(outs) == 0 {
			col.Check("C15.R4", con, false, p.Position(fn.Pos()), "no path of the accessor handles the case: "+label, nil)
			continue
		}
		for _, o := range outs {
			ok, msg := outcomeMatches(e, a, normalise(o, v), wantOK, wantVal, def)
			if ambiguous != "" && !ok {
				msg += " (the accessor also branches on " + ambiguous + ")"
			}
			rule := "C15.R4"
			if a.variant != vPlain {
				rule = "C15.R2,C15.R4"
			}
			if a.store {
				rule += ",C15.R3"
			}
			if a.spec.slice {
				rule += ",C15.R5"
			}
			col.Check(rule, con, ok, o.pos, "case "+label+": "+msg, nil)
		}
	}
	for pi, c := range covered {
		if !c {
			col.Check("C15.R4", con, false, paths[pi].pos, "a path of the accessor is taken under conditions outside the documented decision table: "+strings.Join(paths[pi].st.Facts().List(), "; "), nil)
		}
	}
}

func mentions(t, x *eng.Term) bool { return t.Contains(x) }

// normalise rewrites the returned terms under the scenario: the value of a
// failed comma-ok assertion is the zero value of the asserted type, and
// boolean atoms the scenario decides become constants.
func normalise(o pathInfo, v valuation) pathInfo {
	n := o
	n.rets = make([]*eng.Term, len(o.rets))
	for i, r := range o.rets {
		n.rets[i] = r.Map(func(t *eng.Term) *eng.Term {
			switch t.K {
			case eng.KTA:
				if ok, known := v.eval(eng.TAOk(t.A[0], t.T)); known && !ok {
					return eng.ZeroOf(t.T)
				}
			case eng.KTAOk, eng.KBin, eng.KPure:
				if ok, known := v.eval(t); known {
					return eng.ConstBool(ok)
				}
			}
			return nil
		})
	}
	return n
}

func zeroTermOf(t types.Type) *eng.Term { return eng.ZeroOf(t) }

func outcomeMatches(e *eng.Engine, a accessor, o pathInfo, wantOK bool, wantVal, def *eng.Term) (bool, string) {
	show := func() string {
		if o.panic {
			return "panics"
		}
		return "returns (" + prettyArgs(o.rets) + ")"
	}
	if o.panic {
		if a.variant == vMust && !wantOK {
			return true, ""
		}
		return false, "the accessor panics"
	}
	switch a.variant {
	case vPlain:
		if len(o.rets) != 2 {
			return false, "unexpected result arity"
		}
		gotOK := e.Eval(o.st.Facts(), o.rets[1])
		if wantOK {
			if gotOK == eng.TriTrue && o.rets[0] == wantVal {
				return true, ""
			}
			return false, "must succeed with " + wantVal.Pretty() + "; " + show()
		}
		if gotOK == eng.TriFalse && isZeroValue(o.rets[0], a.spec.target) {
			return true, ""
		}
		return false, "must fail with the zero value; " + show()
	case vOr, vZero, vMust:
		if len(o.rets) != 1 {
			return false, "unexpected result arity"
		}
		if wantOK {
			if o.rets[0] == wantVal {
				return true, ""
			}
			return false, "must yield " + wantVal.Pretty() + "; " + show()
		}
		switch a.variant {
		case vOr:
			if o.rets[0] == def {
				return true, ""
			}
			return false, "must yield the caller's default; " + show()
		case vZero:
			if isZeroValue(o.rets[0], a.spec.target) {
				return true, ""
			}
			return false, "must yield the zero value; " + show()
		default:
			return false, "must panic (Must variant) but " + show()
		}
	}
	return false, "unknown variant"
}

func isZeroValue(t *eng.Term, typ types.Type) bool {
	z := eng.ZeroOf(typ)
	if t == z {
		return true
	}
	if t.K == eng.KNil && z.K == eng.KNil {
		return true
	}
	// float zero may be written 0 or 0.0
	if t.K == eng.KConst && z.K == eng.KConst && (t.S == "0" || (t.IsInt && t.I == 0)) && (z.S == "0" || (z.IsInt && z.I == 0)) {
		return true
	}
	return false
}

// analyzeToSlice checks ToSlice (C15.R6): nil -> empty non-nil slice, []any ->
// itself, other slices -> index-preserving copy, anything else -> one-element slice.
func analyzeToSlice(p *load.Program, r *Roles, res *UnitResult, depth int) {
	col := res.Col
	fn := r.FnToSlice
	if fn == nil || len(fn.Params) != 1 {
		col.Unproven("C15.R6", "ToSlice", p.Position(0), "ToSlice not found", nil)
		return
	}
	issues := mayPanicScan(p, fn, false)
	col.Check("C15.R1", "ToSlice:may-panic", len(issues) == 0, p.Position(fn.Pos()), "ToSlice can panic: "+strings.Join(issues, "; "), nil)
	v := eng.Param(0, fn.Params[0].Name())
	mon := &copyLoopMon{col: col, v: v}
	rm := &ReflectMon{Col: col, Rule: "C15.R1", Label: "ToSlice"}
	e := eng.New(eng.Config{Prog: p.Prog, Pkg: p.SSA, Fset: p.Fset, Root: fn, MaxDepth: depth, MaxStates: 20000, Classify: r.Classifier(Mode{}), Monitors: []eng.Monitor{rm, mon}})
	e.Run()
	res.Stats.add(e, fn)
	for _, pr := range e.SortedProblems() {
		col.Unproven("C15.ENGINE", "engine:ToSlice:"+pr.Kind, pr.Pos, pr.Msg, nil)
	}
	anyT := types.Universe.Lookup("any").Type()
	rv := eng.Pure("reflect.ValueOf", 0, v)
	for _, rt := range e.Returns {
		if rt.Panic || len(rt.Vals) != 1 {
			col.Check("C15.R6,C06.R11", "ToSlice:result", false, rt.Pos, "ToSlice panics", nil)
			continue
		}
		c := &eng.Ctx{E: e, St: rt.State}
		out := rt.Vals[0]
		ms, _ := rt.State.MonByName(e, "copyloop").(copyLoopState)
		isNil := c.IsNil(v)
		if isNil == eng.TriUnknown {
			col.Check("C15.R6,C06.R11", "ToSlice:nil", false, rt.Pos, "a path of ToSlice returns "+out.Pretty()+" without having established whether the argument is nil (nil must become an empty slice, not a one-element slice)", nil)
			continue
		}
		switch {
		case isNil == eng.TriTrue:
			ok := e.LenTerm(rt.State, out) == eng.ConstInt(0) && c.IsNil(out) == eng.TriFalse
			col.Check("C15.R6,C06.R11", "ToSlice:nil", ok, rt.Pos, "ToSlice(nil) must be an empty, non-nil slice, got "+out.Pretty(), nil)
		case c.Eval(eng.TAOk(v, types.NewSlice(anyT))) == eng.TriTrue:
			col.Check("C15.R6,C06.R11", "ToSlice:[]any", out == eng.TA(v, types.NewSlice(anyT)), rt.Pos, "ToSlice([]any) must return the slice itself, got "+out.Pretty(), nil)
		case out.K == eng.KMake && ms.base == nil && c.Eval(eng.Bin("<", eng.ConstInt(0), e.LenTerm(rt.State, out))) == eng.TriFalse:
			// empty source: nothing to copy; the result must still be sized by the source
			l := e.LenTerm(rt.State, out)
			fromSrc := (l.K == eng.KLen && l.A[0].K == eng.KTA && l.A[0].A[0] == v) || l == eng.Pure("(reflect.Value).Len", 0, rv)
			col.Check("C15.R6,C06.R11", "ToSlice:copy", fromSrc, rt.Pos, "the copy is sized by "+l.Pretty()+", not by the source", nil)
		case out.K == eng.KMake:
			// a copy: must be index preserving and complete
			ok := ms.base == out && ms.bad == "" && ms.done && ms.srcOK
			why := ms.bad
			if why == "" && !ms.done {
				why = "the copy loop does not run to the end of the source"
			}
			if why == "" && ms.base != out {
				why = "the returned slice is not the one that was filled"
			}
			// the source must be the argument: asserted slice, or its reflect.Value under Kind()==Slice
			col.Check("C15.R6,C06.R11", "ToSlice:copy", ok, rt.Pos, "ToSlice must copy every element to the same index: "+why, nil)
			if ms.viaReflect {
				col.Check("C15.R6,C06.R11", "ToSlice:copy", kindIn(c, rv, kSlice), rt.Pos, "reflection copy taken without establishing Kind()==Slice", nil)
			}
		default:
			// one-element slice holding v; only for non-slices
			el := e.SliceElems(rt.State, out)
			ok := len(el) == 1 && el[0] == v && c.Eval(eng.Bin("==", kindTerm(rv), eng.ConstInt(kSlice))) == eng.TriFalse
			col.Check("C15.R6,C06.R11", "ToSlice:single", ok, rt.Pos, "a non-slice value must become a one-element slice holding it (and only non-slices may), got "+out.Pretty(), nil)
		}
	}
}

// copyLoopMon tracks "dst[i] = box(src[i])" loops.
type copyLoopMon struct {
	col *Col
	v   *eng.Term
}
type copyLoopState struct {
	base       *eng.Term
	loop       string
	bad        string
	stored     bool
	done       bool
	srcOK      bool
	viaReflect bool
}

func (s copyLoopState) Key() string {
	return fmt.Sprintf("%s|%s|%s|%v%v%v%v", s.base.Key(), s.loop, s.bad, s.stored, s.done, s.srcOK, s.viaReflect)
}
func (s copyLoopState) Terms() []*eng.Term {
	if s.base != nil {
		return []*eng.Term{s.base}
	}
	return nil
}
func (s copyLoopState) Rename(sub func(*eng.Term) *eng.Term) eng.MState {
	if s.base != nil {
		s.base = s.base.Map(sub)
	}
	return s
}
func (m *copyLoopMon) Name() string     { return "copyloop" }
func (m *copyLoopMon) Init() eng.MState { return copyLoopState{} }
func (m *copyLoopMon) OnEvent(c *eng.Ctx, ms eng.MState, ev *eng.Event) eng.MState {
	s := ms.(copyLoopState)
	switch ev.Kind {
	case "store":
		if ev.Addr.K != eng.KIndexAddr || ev.Addr.A[0].K != eng.KMake {
			break
		}
		base, idx := ev.Addr.A[0], ev.Addr.A[1]
		k, _ := eng.AffParts(idx)
		loop := ""
		if k != nil && k.K == eng.KSym && k.G == 0 {
			loop, _ = eng.IVLoop(k.S)
		}
		if s.base == nil {
			s.base, s.loop = base, loop
			if c.Eval(eng.Bin("==", idx, eng.ConstInt(0))) != eng.TriTrue {
				s.bad = "the first element copied is not element 0"
			}
		}
		if base != s.base || loop != s.loop || loop == "" {
			s.bad = "stores are not made through the loop's own index"
		}
		s.stored = true
		// value: box(src[idx]) or Interface(Index(rv, idx))
		val := unbox(ev.Val)
		ok := false
		switch {
		case val.K == eng.KLoad && val.A[0].K == eng.KIndexAddr && val.A[0].A[1] == idx:
			src := val.A[0].A[0]
			ok = src.K == eng.KTA && src.A[0] == m.v
			s.srcOK = ok
			// destination length = source length
			if c.E.LenTerm(c.St, base) != c.E.LenTerm(c.St, src) {
				ok = false
			}
		case val.K == eng.KPure && val.S == "(reflect.Value).Interface" && val.A[0].K == eng.KPure && val.A[0].S == "(reflect.Value).Index" && val.A[0].A[1] == idx:
			rv := val.A[0].A[0]
			ok = rv == eng.Pure("reflect.ValueOf", 0, m.v)
			s.srcOK, s.viaReflect = ok, true
			if c.E.LenTerm(c.St, base) != eng.Pure("(reflect.Value).Len", 0, rv) {
				ok = false
			}
		}
		if !ok && s.bad == "" {
			s.bad = "element " + idx.Pretty() + " receives " + ev.Val.Pretty() + ", not the source element at the same index (or lengths differ)"
		}
	case "loophead":
		if ev.Site == s.loop && ev.Taken {
			if !s.stored && s.bad == "" {
				s.bad = "an iteration copies nothing"
			}
			s.stored = false
		}
	case "branch":
		if ifi, ok := ev.Instr.(*ssa.If); ok && s.loop != "" {
			fi := c.E.InfoOf(ev.Fn)
			if l, _, ok := fi.IVExit(ifi); ok && eng.LoopID(ev.FrameCtx, l.Header) == s.loop && !l.Blocks[ev.Succ] {
				// left through the IV test: against the length of the destination
				cond := ev.Cond
				for cond.K == eng.KNot {
					cond = cond.A[0]
				}
				if cond.K == eng.KBin && cond.S == "<" && cond.A[1] == c.E.LenTerm(c.St, s.base) {
					s.done = true
				}
			}
		}
	}
	return s
}

// checkResultCtors: the Result constructors are faithful. NewResult(v) and R(v)
// hold exactly the argument (whatever its dynamic type - a payload is never
// flattened, unwrapped or converted on the way in) and no error; NewErrorResult(e)
// holds exactly e and a nil value. The accessors, Bind and the adapters are decided
// on the value field; this rule ties that field to what the caller passed.
func checkResultCtors(p *load.Program, r *Roles, res *UnitResult, rule, engineRule string) {
	col := res.Col
	vi, ei, ok := resultFields(r)
	if !ok {
		col.Unproven(rule, "Result:constructors", p.Position(0), "value/error fields of Result not identified", nil)
		return
	}
	field := func(t *eng.Term, i int) *eng.Term {
		if t.K == eng.KStruct && i < len(t.A) {
			return t.A[i]
		}
		return eng.Field(t, i)
	}
	for _, name := range []string{"NewResult", "R", "NewErrorResult"} {
		fn := p.Func(name)
		con := name + ":constructor"
		if fn == nil || len(fn.Params) != 1 {
			col.Unproven(rule, con, p.Position(0), "constructor "+name+" not found with one parameter", nil)
			continue
		}
		arg := eng.Param(0, fn.Params[0].Name())
		paths := exploreAdapter(p, r, res, fn, Mode{}, nil, nil, nil, engineRule)
		if len(paths) == 0 {
			col.Unproven(rule, con, p.Position(fn.Pos()), "no return path explored", nil)
		}
		for _, pth := range paths {
			if pth.panic || len(pth.rets) != 1 {
				col.CheckAt(rule, con, false, pth.pos, name+" can panic or has an unexpected result list", nil)
				continue
			}
			v, e := field(pth.rets[0], vi), field(pth.rets[0], ei)
			isNil := func(t *eng.Term) bool {
				return t.K == eng.KNil || t.K == eng.KZero || pth.e.Eval(pth.st.Facts(), eng.Bin("==", t, eng.Nil())) == eng.TriTrue
			}
			if name == "NewErrorResult" {
				col.CheckAt(rule, con, e == arg && isNil(v), pth.pos, "NewErrorResult(err) must hold exactly err and a nil value, got value "+v.Pretty()+", error "+e.Pretty(), nil)
			} else {
				col.CheckAt(rule, con, v == arg && isNil(e), pth.pos, name+"(v) must hold exactly v (of whatever type) and no error, got value "+v.Pretty()+", error "+e.Pretty(), nil)
			}
		}
	}
}
