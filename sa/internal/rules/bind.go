package rules

import (
	"fmt"
	"sort"
	"strings"

	"flytsa/internal/eng"
	"flytsa/internal/load"

	"golang.org/x/tools/go/ssa"
)

// BindMon checks one Bind implementation (C16).
type BindMon struct {
	Col        *Col
	Label      string
	Val, Found *eng.Term // the bound value; presence bit (store only)
	Dest       *eng.Term
}

type bindState struct {
	marshal, unmarshal, set int8
	unErr                   *eng.Term
}

func (s bindState) Key() string {
	return fmt.Sprintf("%d%d%d|%s", s.marshal, s.unmarshal, s.set, s.unErr.Key())
}
func (s bindState) Terms() []*eng.Term {
	if s.unErr != nil {
		return []*eng.Term{s.unErr}
	}
	return nil
}
func (s bindState) Rename(sub func(*eng.Term) *eng.Term) eng.MState {
	if s.unErr != nil {
		s.unErr = s.unErr.Map(sub)
	}
	return s
}

func (m *BindMon) Name() string     { return "bind" }
func (m *BindMon) Init() eng.MState { return bindState{} }

func (m *BindMon) valueUsable(c *eng.Ctx) (bool, string) {
	if m.Found != nil {
		if c.Eval(m.Found) != eng.TriTrue {
			return false, "the key is not known to be present"
		}
		return true, ""
	}
	if c.IsNil(m.Val) != eng.TriFalse {
		return false, "the result value is not known to be non-nil"
	}
	return true, ""
}

func (m *BindMon) OnEvent(c *eng.Ctx, ms eng.MState, ev *eng.Event) eng.MState {
	s := ms.(bindState)
	chk := func(rule, role string, ok bool, msg string) {
		m.Col.Check(rule, m.Label+":"+role, ok, ev.Pos, msg, pathIf(!ok, c))
	}
	marshalErr := eng.Pure("encoding/json.Marshal", 1, m.Val)
	marshalOut := eng.Pure("encoding/json.Marshal", 0, m.Val)
	typeEq := eng.Bin("==", eng.Pure("reflect.TypeOf", 0, m.Val), eng.Pure("reflect.Type.Elem", 0, eng.Pure("(reflect.Value).Type", 0, eng.Pure("reflect.ValueOf", 0, m.Dest))))
	switch ev.Kind {
	case "store", "mapupdate", "mapdelete", "append", "clear", "send":
		chk("C16.R4", "effect", false, "Bind writes "+ev.Kind+" "+descAddr(ev)+": binding must not modify the stored value or the store")
	case "call":
		name := ""
		if ev.Callee != nil {
			name = eng.CalleeName(ev.Callee)
		}
		switch name {
		case "encoding/json.Marshal":
			ok := len(ev.Args) == 1 && ev.Args[0] == m.Val
			chk("C16.R2", "marshal", ok, "json.Marshal is applied to "+prettyArgs(ev.Args)+", not to the bound value")
			u, why := m.valueUsable(c)
			chk("C16.R3", "marshal", u, "the JSON path is taken although "+why+" (missing key / nil value must be reported as an error)")
			chk("C16.R5", "marshal", c.Eval(typeEq) == eng.TriFalse, "the JSON path is taken although the value's type is not known to differ from the destination's element type (identity copy required for matching types)")
			s.marshal = 1
		case "encoding/json.Unmarshal":
			ok := len(ev.Args) == 2 && ev.Args[0] == marshalOut && ev.Args[1] == m.Dest
			chk("C16.R2", "unmarshal", ok, "json.Unmarshal must decode exactly the bytes json.Marshal produced for the value into the caller's destination, got ("+prettyArgs(ev.Args)+")")
			chk("C16.R2", "unmarshal", s.marshal == 1 && c.IsNil(marshalErr) == eng.TriTrue, "json.Unmarshal runs although json.Marshal is not known to have succeeded")
			s.unmarshal = 1
			if len(ev.Results) == 1 {
				s.unErr = ev.Results[0]
			}
		case "(reflect.Value).Set":
			okArgs := len(ev.Args) == 2 && ev.Args[0] == eng.Pure("(reflect.Value).Elem", 0, eng.Pure("reflect.ValueOf", 0, m.Dest)) && ev.Args[1] == eng.Pure("reflect.ValueOf", 0, m.Val)
			chk("C16.R5", "fast-path", okArgs, "the identity copy must set *dest to the value itself, got Set("+prettyArgs(ev.Args)+")")
			chk("C16.R5", "fast-path", c.Eval(typeEq) == eng.TriTrue, "the identity copy is taken under a condition other than TypeOf(value) == element type of dest (e.g. assignability): the result would differ from the JSON round-trip contract")
			u, why := m.valueUsable(c)
			chk("C16.R3", "fast-path", u, "the value is copied although "+why)
			s.set = 1
		default:
			if strings.HasPrefix(name, "encoding/json.") {
				chk("C16.R2", "json-other", false, "unexpected JSON call "+name)
			}
		}
	case "return":
		if len(ev.Results) != 1 {
			break
		}
		err := ev.Results[0]
		switch c.IsNil(err) {
		case eng.TriTrue:
			ok := s.set == 1 || (s.unmarshal == 1 && s.unErr != nil && c.IsNil(s.unErr) == eng.TriTrue)
			chk("C16.R2", "success-return", ok, "Bind reports success although neither the identity copy nor a successful JSON decode happened on this path (a marshal/unmarshal error is swallowed, or nothing was bound)")
		case eng.TriFalse:
			switch {
			case s.unmarshal == 1:
				chk("C16.R2", "error-return", err.Unwraps(s.unErr) && c.IsNil(s.unErr) == eng.TriFalse, "after json.Unmarshal the returned error must wrap its error, got "+err.Pretty())
			case s.marshal == 1:
				chk("C16.R2", "error-return", err.Unwraps(marshalErr) && c.IsNil(marshalErr) == eng.TriFalse, "after a failed json.Marshal the returned error must wrap its error, got "+err.Pretty())
			default:
				// invalid input: missing key / nil value / bad destination
				u, _ := m.valueUsable(c)
				rv := eng.Pure("reflect.ValueOf", 0, m.Dest)
				badDest := c.Eval(eng.Bin("==", kindTerm(rv), eng.ConstInt(kPtr))) == eng.TriFalse || c.Eval(eng.Pure("(reflect.Value).IsNil", 0, rv)) == eng.TriTrue
				missing := false
				if m.Found != nil {
					missing = c.Eval(m.Found) == eng.TriFalse
				} else {
					missing = c.IsNil(m.Val) == eng.TriTrue
				}
				_ = u
				chk("C16.R3", "invalid-input-return", missing || badDest, "Bind fails before binding without an established reason (missing key / nil value / nil or non-pointer destination)")
			}
		default:
			chk("C16.R2", "return", false, "nil-ness of Bind's result "+err.Pretty()+" is not established")
		}
	case "panic":
		chk("C16.R1", "panic", false, "Bind can panic explicitly")
	}
	return s
}

// AnalyzeBind decides C16.
func AnalyzeBind(p *load.Program, r *Roles, depth int) *UnitResult {
	res := &UnitResult{Col: NewCol()}
	col := res.Col
	getFn := p.Method("SharedStore", "Get")
	pure := map[*ssa.Function]string{}
	if getFn != nil {
		pure[getFn] = "Get"
	}
	classes := map[string][]string{}
	for _, tn := range []string{"SharedStore", "Result"} {
		fn := p.Method(tn, "Bind")
		label := tn + ".Bind"
		if fn == nil {
			col.Unproven("C16.R0", label, p.Position(0), "method "+label+" not found", nil)
			continue
		}
		issues := mayPanicScan(p, fn, false)
		col.Check("C16.R1", label+":may-panic", len(issues) == 0, p.Position(fn.Pos()), "Bind can panic: "+strings.Join(issues, "; "), nil)
		mon := &BindMon{Col: col, Label: label}
		if tn == "SharedStore" {
			if len(fn.Params) != 3 {
				col.Unproven("C16.R0", label, p.Position(fn.Pos()), "unexpected signature", nil)
				continue
			}
			recv, key := eng.Param(0, fn.Params[0].Name()), eng.Param(1, fn.Params[1].Name())
			mon.Val, mon.Found, mon.Dest = eng.Pure("Get", 0, recv, key), eng.Pure("Get", 1, recv, key), eng.Param(2, fn.Params[2].Name())
		} else {
			if len(fn.Params) != 2 {
				col.Unproven("C16.R0", label, p.Position(fn.Pos()), "unexpected signature", nil)
				continue
			}
			mon.Val, mon.Dest = eng.Field(eng.Param(0, fn.Params[0].Name()), 0), eng.Param(1, fn.Params[1].Name())
		}
		rm := &ReflectMon{Col: col, Rule: "C16.R1", Label: label}
		e := eng.New(eng.Config{Prog: p.Prog, Pkg: p.SSA, Fset: p.Fset, Root: fn, MaxDepth: depth, MaxStates: 20000,
			Classify: r.Classifier(Mode{PureFns: pure}), Monitors: []eng.Monitor{rm, mon}, KeepFacts: true})
		e.Run()
		res.Stats.add(e, fn)
		for _, pr := range e.SortedProblems() {
			col.Unproven("C16.ENGINE", "engine:"+label+":"+pr.Kind, pr.Pos, pr.Msg, nil)
		}
		// outcome classes for the sibling comparison
		set := map[string]bool{}
		for _, rt := range e.Returns {
			if rt.Panic || len(rt.Vals) != 1 {
				set["panic"] = true
				continue
			}
			bs, _ := rt.State.MonByName(e, "bind").(bindState)
			c := &eng.Ctx{E: e, St: rt.State}
			isNil := c.IsNil(rt.Vals[0])
			cls := ""
			switch {
			case bs.set == 1:
				cls = "identity-copy"
			case bs.unmarshal == 1 && isNil == eng.TriTrue:
				cls = "json-ok"
			case bs.unmarshal == 1:
				cls = "unmarshal-error"
			case bs.marshal == 1:
				cls = "marshal-error"
			default:
				rv := eng.Pure("reflect.ValueOf", 0, mon.Dest)
				if c.Eval(eng.Bin("==", kindTerm(rv), eng.ConstInt(kPtr))) == eng.TriFalse {
					cls = "dest-not-pointer"
				} else if c.Eval(eng.Pure("(reflect.Value).IsNil", 0, rv)) == eng.TriTrue {
					cls = "dest-nil-pointer"
				} else {
					cls = "no-value"
				}
			}
			if isNil == eng.TriTrue {
				cls += "=>nil"
			} else {
				cls += "=>error"
			}
			set[cls] = true
		}
		var list []string
		for k := range set {
			list = append(list, k)
		}
		sort.Strings(list)
		classes[tn] = list
	}
	if a, b := classes["SharedStore"], classes["Result"]; a != nil && b != nil {
		same := strings.Join(a, ",") == strings.Join(b, ",")
		pos := p.Position(0)
		if fn := p.Method("Result", "Bind"); fn != nil {
			pos = p.Position(fn.Pos())
		}
		checkResultCtors(p, r, res, "C16.R6", "C16.ENGINE")
		col.Check("C16.R5", "Bind:siblings", same, pos, fmt.Sprintf("the store's Bind and the result's Bind do not have the same outcome classes: store %v, result %v", a, b), nil)
	}
	return res
}
