package rules

import (
	"fmt"
	"go/token"
	"go/types"
	"strings"

	"flytsa/internal/eng"
	"flytsa/internal/load"

	"golang.org/x/tools/go/ssa"
)

type poolFields struct {
	tasks, done, wg int
	ok              bool
}

func findPoolFields(r *Roles) poolFields {
	pf := poolFields{-1, -1, -1, false}
	if r.WorkerPool == nil {
		return pf
	}
	st, ok := r.WorkerPool.Underlying().(*types.Struct)
	if !ok {
		return pf
	}
	for i := 0; i < st.NumFields(); i++ {
		ft := st.Field(i).Type()
		if ch, isChan := ft.Underlying().(*types.Chan); isChan {
			if _, isFn := ch.Elem().Underlying().(*types.Signature); isFn && pf.tasks < 0 {
				pf.tasks = i
			} else if pf.done < 0 {
				pf.done = i
			}
		}
		if isNamed(ft, "sync", "WaitGroup") && pf.wg < 0 {
			pf.wg = i
		}
	}
	pf.ok = pf.tasks >= 0 && pf.wg >= 0
	return pf
}

// genericMon adapts a function to the Monitor interface with a small comparable state.
type poolMon struct {
	name string
	init func() eng.MState
	on   func(c *eng.Ctx, ms eng.MState, ev *eng.Event) eng.MState
}

func (m *poolMon) Name() string     { return m.name }
func (m *poolMon) Init() eng.MState { return m.init() }
func (m *poolMon) OnEvent(c *eng.Ctx, ms eng.MState, ev *eng.Event) eng.MState {
	return m.on(c, ms, ev)
}

type kvState struct {
	s     string
	terms []*eng.Term
}

func (k kvState) Key() string {
	var sb strings.Builder
	sb.WriteString(k.s)
	for _, t := range k.terms {
		sb.WriteString("|" + t.Key())
	}
	return sb.String()
}
func (k kvState) Terms() []*eng.Term {
	var out []*eng.Term
	for _, t := range k.terms {
		if t != nil {
			out = append(out, t)
		}
	}
	return out
}
func (k kvState) Rename(sub func(*eng.Term) *eng.Term) eng.MState {
	n := kvState{s: k.s}
	for _, t := range k.terms {
		if t == nil {
			n.terms = append(n.terms, nil)
		} else {
			n.terms = append(n.terms, t.Map(sub))
		}
	}
	return n
}

// AnalyzePool verifies the worker pool (C12, and the pool-side rules of C08).
func AnalyzePool(p *load.Program, r *Roles, depth int) *UnitResult {
	res := &UnitResult{Col: NewCol()}
	col := res.Col
	pf := findPoolFields(r)
	if !pf.ok {
		col.Unproven("C12.R0,C08.R0", "WorkerPool:fields", p.Position(0), "cannot identify the task channel and WaitGroup fields of WorkerPool by their types", nil)
		return res
	}
	run := func(root *ssa.Function, free []*eng.Term, mons ...eng.Monitor) *eng.Engine {
		var e *eng.Engine
		cfg := eng.Config{Prog: p.Prog, Pkg: p.SSA, Fset: p.Fset, Root: root, RootFree: free, MaxDepth: depth, MaxStates: 20000,
			Classify: r.Classifier(Mode{}), IntLowerBound: budgetLowerBound(&e), Monitors: mons}
		e = eng.New(cfg)
		e.Run()
		res.Stats.add(e, root)
		for _, pr := range e.SortedProblems() {
			col.Unproven("C12.ENGINE,C08.ENGINE", "engine:"+root.Name()+":"+pr.Kind, pr.Pos, pr.Msg, nil)
		}
		return e
	}
	chk := func(c *eng.Ctx, rule, con string, ok bool, ev *eng.Event, msg string) {
		col.Check(rule, con, ok, ev.Pos, msg, pathIf(!ok && c != nil, c))
	}

	// ---- Submit -----------------------------------------------------------
	var wrapper *ssa.Function
	var wrapPoolIdx, wrapTaskIdx = -1, -1
	var wrapCells map[int]*eng.Term // function values the wrapper captured, as Submit left them
	var submitRecv *eng.Term
	if fn := r.PoolSubmit; fn != nil && len(fn.Params) == 2 {
		recv, task := eng.Param(0, fn.Params[0].Name()), eng.Param(1, fn.Params[1].Name())
		submitRecv = recv
		wgAddr := eng.FieldAddr(recv, pf.wg)
		tasksCh := eng.Load(eng.FieldAddr(recv, pf.tasks))
		mon := &poolMon{name: "submit", init: func() eng.MState { return kvState{s: "adds=0,sends=0,held=0"} }}
		mon.on = func(c *eng.Ctx, ms eng.MState, ev *eng.Event) eng.MState {
			s := ms.(kvState)
			var adds, sends, held int
			fmt.Sscanf(s.s, "adds=%d,sends=%d,held=%d", &adds, &sends, &held)
			con := func(role string) string { return "WorkerPool.Submit:" + role }
			switch ev.Kind {
			case "call":
				switch ev.Class {
				case "wg.Add":
					ok := len(ev.Args) == 2 && ev.Args[0] == wgAddr && ev.Args[1].IsConstInt() && ev.Args[1].I == 1
					chk(c, "C12.R1", con("wg-add"), ok, ev, "Submit must register exactly one pending task on the pool's own WaitGroup, got Add("+prettyArgs(ev.Args)+")")
					chk(c, "C12.R1", con("wg-add"), sends == 0, ev, "the task is registered with the WaitGroup only after it was enqueued: Wait can return while the task is still queued or running")
					if adds < 2 {
						adds++
					}
				case "wg.Done", "wg.Wait":
					chk(c, "C12.R1", con("wg-other"), false, ev, "Submit itself calls "+ev.Class)
				case "lock", "rlock":
					if held < 3 {
						held++
					}
				case "unlock", "runlock":
					if held > 0 {
						held--
					}
				}
			case "send":
				chk(c, "C12.R2", con("enqueue"), ev.Addr == tasksCh, ev, "Submit sends on "+ev.Addr.Pretty()+", not on the pool's task channel")
				chk(c, "C12.R2,C08.R2", con("enqueue"), held == 0, ev, "Submit blocks on the queue while holding a lock: a worker (or the wrapper it runs) that needs the same lock can never drain the queue - submitted tasks are not executed and Submit / Wait never return")
				chk(c, "C12.R1", con("enqueue"), adds == 1, ev, fmt.Sprintf("the task is enqueued after %d WaitGroup registrations (want exactly 1 before the send)", adds))
				okv := false
				if ev.Val.K == eng.KClosure {
					if f, ok := ev.Val.Aux.(*ssa.Function); ok {
						wrapper = f
						wrapCells = map[int]*eng.Term{}
						for i, b := range ev.Val.A {
							if m := c.Mem(b); m != nil && m.K == eng.KClosure {
								wrapCells[i] = m // a captured function value (e.g. the method value p.wg.Done)
							}
							switch c.Mem(b) {
							case recv:
								wrapPoolIdx = i
							case task:
								wrapTaskIdx = i
							}
							if b == recv {
								wrapPoolIdx = i
							}
							if b == task {
								wrapTaskIdx = i
							}
						}
						okv = wrapTaskIdx >= 0
					}
				}
				chk(c, "C12.R3", con("enqueue"), okv, ev, "the enqueued value must be a wrapper closure around the submitted task (it has to signal completion), got "+ev.Val.Pretty())
				if sends < 2 {
					sends++
				}
			case "select":
				for _, cs := range ev.Cases {
					if cs.Send {
						chk(c, "C12.R2,C09.R6", con("enqueue"), false, ev, "Submit enqueues inside a select: with a default/alternative case a task can be dropped instead of blocking")
					}
				}
			case "go":
				chk(c, "C08.R1,C09.R6,C12.R9", con("go"), false, ev, "Submit starts a goroutine: concurrency is no longer bounded by the workers, and tasks no longer enter the queue in submission order")
			case "return":
				chk(c, "C12.R2,C09.R6", con("return"), sends == 1, ev, fmt.Sprintf("Submit returns after enqueuing the task %d times (want exactly once on every path)", sends))
			}
			return kvState{s: fmt.Sprintf("adds=%d,sends=%d,held=%d", adds, sends, held)}
		}
		run(fn, nil, mon)
	} else {
		col.Unproven("C12.R1", "WorkerPool.Submit", p.Position(0), "method (*WorkerPool).Submit not found", nil)
	}

	// ---- the wrapper closure enqueued by Submit -----------------------------
	if wrapper != nil && wrapTaskIdx >= 0 {
		free := make([]*eng.Term, len(wrapper.FreeVars))
		for i, fv := range wrapper.FreeVars {
			free[i] = eng.Free(i, fv.Name())
		}
		taskVal := eng.Load(free[wrapTaskIdx])
		mon := &poolMon{name: "wrapper", init: func() eng.MState { return kvState{s: "calls=0,dones=0,deferred=0"} }}
		mon.on = func(c *eng.Ctx, ms eng.MState, ev *eng.Event) eng.MState {
			s := ms.(kvState)
			var calls, dones, deferred int
			fmt.Sscanf(s.s, "calls=%d,dones=%d,deferred=%d", &calls, &dones, &deferred)
			con := func(role string) string { return "WorkerPool.Submit.wrapper:" + role }
			isOwnWG := func(t *eng.Term) bool {
				if t == nil || t.K != eng.KFieldAddr || int(t.I) != pf.wg {
					return false
				}
				base := t.A[0]
				if wrapPoolIdx >= 0 && (base == eng.Load(free[wrapPoolIdx]) || base == free[wrapPoolIdx]) {
					return true
				}
				// reached through a value Submit captured: the pool Submit was called on
				return submitRecv != nil && base == submitRecv
			}
			switch ev.Kind {
			case "defer":
				if ev.Callee != nil && eng.CalleeName(ev.Callee) == "(*sync.WaitGroup).Done" {
					deferred = 1
					chk(c, "C12.R3", con("done"), calls == 0, ev, "Done is deferred only after the task already ran: a panic or early return in between loses the completion signal")
				}
			case "call":
				switch {
				case ev.Class == "wg.Done":
					ok := len(ev.Args) >= 1 && isOwnWG(ev.Args[0])
					chk(c, "C12.R3", con("done"), ok, ev, "completion is signalled on "+prettyArgs(ev.Args)+", not on the pool's WaitGroup")
					chk(c, "C12.R3", con("done"), calls == 1, ev, fmt.Sprintf("completion is signalled after %d executions of the task (want: after exactly one): Wait could return before the task finished", calls))
					if dones < 2 {
						dones++
					}
				case strings.HasPrefix(ev.Class, "dyn:") || strings.HasPrefix(ev.Class, "field:"):
					chk(c, "C12.R3", con("task-call"), ev.FnTerm == taskVal, ev, "the wrapper calls "+ev.FnTerm.Pretty()+", not the submitted task")
					if calls < 2 {
						calls++
					}
				}
			case "go":
				chk(c, "C08.R2", con("go"), false, ev, "the wrapper runs the task in a new goroutine: the worker is free again while the task still runs (limit broken, Wait can return early)")
			case "return":
				chk(c, "C12.R3", con("return"), calls == 1, ev, fmt.Sprintf("the wrapper executes the submitted task %d times on this path (want exactly once)", calls))
				chk(c, "C12.R3", con("return"), dones == 1, ev, fmt.Sprintf("the wrapper signals completion %d times on this path (want exactly once, on every exit)", dones))
				_ = deferred
			}
			return kvState{s: fmt.Sprintf("calls=%d,dones=%d,deferred=%d", calls, dones, deferred)}
		}
		memInit := map[*eng.Term]*eng.Term{}
		for i, v := range wrapCells {
			if i < len(free) && i != wrapTaskIdx && i != wrapPoolIdx {
				memInit[free[i]] = v
			}
		}
		{
			var e *eng.Engine
			cfg := eng.Config{Prog: p.Prog, Pkg: p.SSA, Fset: p.Fset, Root: wrapper, RootFree: free, MaxDepth: depth, MaxStates: 20000,
				Classify: r.Classifier(Mode{}), IntLowerBound: budgetLowerBound(&e), Monitors: []eng.Monitor{mon}, MemInit: memInit}
			e = eng.New(cfg)
			e.Run()
			res.Stats.add(e, wrapper)
			for _, pr := range e.SortedProblems() {
				col.Unproven("C12.ENGINE,C08.ENGINE", "engine:"+wrapper.Name()+":"+pr.Kind, pr.Pos, pr.Msg, nil)
			}
		}
	} else if r.PoolSubmit != nil {
		col.Check("C12.R3", "WorkerPool.Submit.wrapper:return", false, p.Position(r.PoolSubmit.Pos()), "no wrapper closure around the submitted task was found in Submit", nil)
	}

	// ---- worker ---------------------------------------------------------------
	closedListen := map[string]bool{}            // "tasks"/"done": worker returns when this channel is closed
	blockListens := map[string]map[string]bool{} // blocking point (position) -> pool channels it listens on
	var workerFn *ssa.Function
	// the worker is the callee of the only go statement (found below); locate it first
	goSites := 0
	var goInstr *ssa.Go
	var goFn *ssa.Function
	for _, fn := range p.AllFunctions() {
		for _, b := range fn.Blocks {
			for _, ins := range b.Instrs {
				if g, ok := ins.(*ssa.Go); ok {
					goSites++
					if goFn != r.FnNewWorkerPool || fn == r.FnNewWorkerPool {
						if goFn == nil || fn == r.FnNewWorkerPool || strings.HasPrefix(fn.Name(), "New") {
							goInstr, goFn = g, fn // a constructor's go statement wins as "the" spawn site
						}
					}
				}
			}
		}
	}
	// the spawn site belongs to the constructor: in NewWorkerPool itself, or in a function it
	// calls (a shared constructor body such as NewWorkerPoolWithQueue), which the engine inlines
	var staticallyCalls func(from, to *ssa.Function, depth int) bool
	staticallyCalls = func(from, to *ssa.Function, depth int) bool {
		if from == nil || to == nil || depth < 0 {
			return false
		}
		for _, b := range from.Blocks {
			for _, ins := range b.Instrs {
				if ci, ok := ins.(ssa.CallInstruction); ok {
					if g := ci.Common().StaticCallee(); g != nil && g.Pkg == p.SSA && (g == to || staticallyCalls(g, to, depth-1)) {
						return true
					}
				}
			}
		}
		return false
	}
	ctorOwns := goFn != nil && (goFn == r.FnNewWorkerPool || staticallyCalls(r.FnNewWorkerPool, goFn, 2))
	okGo := goSites == 1 && ctorOwns
	where := ""
	if goInstr != nil {
		where = posStr(p.Position(goInstr.Pos()))
	}
	col.Check("C08.R1,C12.R9", "package:go-statements", okGo, p.Position(r.FnNewWorkerPool.Pos()),
		fmt.Sprintf("the package must start goroutines only in the pool constructor (found %d go statements, last at %s in %s)", goSites, where, funcLabelOrNone(goFn)), nil)
	if goInstr != nil {
		workerFn = goInstr.Common().StaticCallee()
	}
	// who may change the wait-group count: Submit and what it builds or calls (the wrapper it
	// queues, helpers). Anything else - the worker, Close, Wait - counting a task a second time
	// (or not at all) breaks the barrier.
	if sub := p.Method("WorkerPool", "Submit"); sub != nil {
		allowed := map[*ssa.Function]bool{}
		var reach func(f *ssa.Function)
		reach = func(f *ssa.Function) {
			if f == nil || allowed[f] || f.Pkg != p.SSA && f.Parent() == nil {
				return
			}
			allowed[f] = true
			for _, a := range f.AnonFuncs {
				reach(a)
			}
			for _, b := range f.Blocks {
				for _, ins := range b.Instrs {
					if ci, ok := ins.(ssa.CallInstruction); ok {
						if g := ci.Common().StaticCallee(); g != nil && g.Pkg == p.SSA {
							reach(g)
						}
					}
				}
			}
		}
		reach(sub)
		// any other function that queues onto a channel of the pool is a submitter too (TrySubmit,
		// SubmitContext, ...): whether it counts correctly is for the rules of Submit-like
		// functions; here only the worker side and bystanders are excluded
		poolChan := func(v ssa.Value) bool {
			if u, ok := v.(*ssa.UnOp); ok {
				if fa, ok := u.X.(*ssa.FieldAddr); ok {
					if pt, ok := fa.X.Type().Underlying().(*types.Pointer); ok && r.WorkerPool != nil && types.Identical(pt.Elem(), r.WorkerPool) {
						return true
					}
				}
			}
			return false
		}
		for _, fn := range p.AllFunctions() {
			for _, b := range fn.Blocks {
				for _, ins := range b.Instrs {
					switch x := ins.(type) {
					case *ssa.Send:
						if poolChan(x.Chan) {
							reach(fn)
						}
					case *ssa.Select:
						for _, st := range x.States {
							if st.Dir == types.SendOnly && poolChan(st.Chan) {
								reach(fn)
							}
						}
					}
				}
			}
		}
		isWG := func(f *ssa.Function) bool {
			n := eng.CalleeName(f)
			return n == "(*sync.WaitGroup).Done" || n == "(*sync.WaitGroup).Add"
		}
		okAcc, whereAcc := true, ""
		sites := 0
		for _, fn := range p.AllFunctions() {
			for _, b := range fn.Blocks {
				for _, ins := range b.Instrs {
					var callee *ssa.Function
					switch x := ins.(type) {
					case ssa.CallInstruction:
						callee = x.Common().StaticCallee()
					case *ssa.MakeClosure: // a method value such as p.wg.Done
						if f, ok := x.Fn.(*ssa.Function); ok && strings.HasPrefix(f.Synthetic, "bound method wrapper") {
							if obj, ok := f.Object().(*types.Func); ok {
								callee = p.Prog.FuncValue(obj)
							}
						}
					}
					if callee == nil || !isWG(callee) {
						continue
					}
					// only the pool's own wait group (a field of a WorkerPool)
					var recv ssa.Value
					switch x := ins.(type) {
					case ssa.CallInstruction:
						if len(x.Common().Args) > 0 {
							recv = x.Common().Args[0]
						}
					case *ssa.MakeClosure:
						if len(x.Bindings) > 0 {
							recv = x.Bindings[0]
						}
					}
					fa, isFA := recv.(*ssa.FieldAddr)
					if !isFA {
						continue
					}
					if pt, ok := fa.X.Type().Underlying().(*types.Pointer); !ok || r.WorkerPool == nil || !types.Identical(pt.Elem(), r.WorkerPool) {
						continue
					}
					sites++
					if !allowed[fn] {
						okAcc, whereAcc = false, posStr(p.Position(ins.Pos()))+" in "+funcLabel(fn)
					}
				}
			}
		}
		col.Check("C12.R3", "package:wait-group-accounting", okAcc && sites > 0, p.Position(sub.Pos()), "the wait-group count is changed outside Submit and the wrapper it queues ("+whereAcc+"): a task counted twice lets Wait return while another task is still running, a task not counted is not waited for", nil)
	}
	// the worker is a method of the pool, or a closure that captured the pool
	var workerRecv *eng.Term
	var workerFree []*eng.Term
	workerPoolFree := -1
	if workerFn != nil {
		switch {
		case workerFn.Signature.Recv() != nil && recvName(workerFn.Signature.Recv().Type()) == "WorkerPool" && len(workerFn.Params) >= 1:
			// (further parameters, e.g. a worker id, are left symbolic)
			workerRecv = eng.Param(0, workerFn.Params[0].Name())
		case workerFn.Signature.Recv() == nil && len(workerFn.Params) == 0:
			for k, fv := range workerFn.FreeVars {
				workerFree = append(workerFree, eng.Free(k, fv.Name()))
				if pt, ok := fv.Type().Underlying().(*types.Pointer); ok {
					switch {
					case isNamedPtr(pt.Elem(), r.WorkerPool): // captured variable holding the *WorkerPool
						workerRecv, workerPoolFree = eng.Load(eng.Free(k, fv.Name())), k
					case types.Identical(pt.Elem(), r.WorkerPool):
						workerRecv, workerPoolFree = eng.Free(k, fv.Name()), k
					}
				}
			}
		}
	}
	if workerRecv != nil {
		recv := workerRecv
		tasksCh := eng.Load(eng.FieldAddr(recv, pf.tasks))
		var doneCh *eng.Term
		if pf.done >= 0 {
			doneCh = eng.Load(eng.FieldAddr(recv, pf.done))
		}
		// state: pending = received function not yet called; lastSel = description of the last blocking point
		mon := &poolMon{name: "worker", init: func() eng.MState { return kvState{s: "idle", terms: []*eng.Term{nil, nil}} }}
		mon.on = func(c *eng.Ctx, ms eng.MState, ev *eng.Event) eng.MState {
			s := ms.(kvState)
			pending, okT := s.terms[0], s.terms[1]
			st := s.s
			con := func(role string) string { return "WorkerPool.worker:" + role }
			switch ev.Kind {
			case "select":
				chk(c, "C08.R2", con("receive"), pending == nil || c.IsNil(pending) == eng.TriTrue, ev, "the worker goes back to receiving while a received task has not been executed (task dropped)")
				listens := false
				for i, cs := range ev.Cases {
					if cs.Send {
						chk(c, "C08.R2", con("receive"), false, ev, "the worker sends on a channel")
						continue
					}
					if cs.Chan == tasksCh || (doneCh != nil && cs.Chan == doneCh) {
						listens = true
					}
					if ev.Chosen == i {
						switch {
						case cs.Chan == tasksCh:
							// results: index, ok, then one value per receive case
							k := 2
							for j := 0; j < i; j++ {
								if !ev.Cases[j].Send {
									k++
								}
							}
							if k < len(ev.Results) {
								pending, okT = ev.Results[k], ev.Results[1]
							}
							st = "got-task"
						case doneCh != nil && cs.Chan == doneCh:
							st = "got-done"
						default:
							st = "got-other"
						}
					}
				}
				if ev.Chosen < 0 {
					st = "default"
					chk(c, "C08.R2", con("receive"), false, ev, "the worker polls (select with default) instead of blocking")
				}
				chk(c, "C12.R4", con("receive"), listens && ev.Class == "blocking", ev, "a blocking point of the worker does not listen on the pool's task/done channels")
				{
					set := blockListens[posStr(ev.Pos)]
					if set == nil {
						set = map[string]bool{}
						blockListens[posStr(ev.Pos)] = set
					}
					for _, cs := range ev.Cases {
						if !cs.Send && cs.Chan == tasksCh {
							set["tasks"] = true
						}
						if !cs.Send && doneCh != nil && cs.Chan == doneCh {
							set["done"] = true
						}
					}
				}
			case "recv":
				chk(c, "C08.R2", con("receive"), pending == nil || c.IsNil(pending) == eng.TriTrue, ev, "the worker goes back to receiving while a received task has not been executed (task dropped)")
				if blockListens[posStr(ev.Pos)] == nil {
					blockListens[posStr(ev.Pos)] = map[string]bool{}
				}
				switch {
				case ev.Addr == tasksCh:
					blockListens[posStr(ev.Pos)]["tasks"] = true
					pending = ev.Results[0]
					okT = nil
					if len(ev.Results) > 1 {
						okT = ev.Results[1]
					}
					st = "got-task"
				case doneCh != nil && ev.Addr == doneCh:
					blockListens[posStr(ev.Pos)]["done"] = true
					st = "got-done"
				default:
					chk(c, "C12.R4", con("receive"), false, ev, "the worker blocks on "+ev.Addr.Pretty()+", which is not one of the pool's channels")
				}
			case "call":
				switch {
				case isPkgVarCall(ev):
					// a package-level function variable (a trace / debug hook): not a task
				case strings.HasPrefix(ev.Class, "dyn:") || strings.HasPrefix(ev.Class, "field:"):
					chk(c, "C08.R2", con("task-call"), pending != nil && ev.FnTerm == pending, ev, "the worker calls "+ev.FnTerm.Pretty()+", which is not the task it just received (double execution or stale task)")
					if okT != nil {
						chk(c, "C12.R4", con("task-call"), c.Eval(okT) == eng.TriTrue, ev, "the worker calls the received value without knowing that the channel delivered a task (closed channel yields a nil function)")
					}
					pending, st = nil, "ran"
				case ev.Class == "lock" || ev.Class == "rlock" || ev.Class == "wg.Wait" || ev.Class == "time.Sleep":
					chk(c, "C08.R2", con("blocking"), false, ev, "the worker blocks on "+ev.Class+" besides its channels")
				case ev.Class == "wg.Done" || ev.Class == "wg.Add":
					chk(c, "C12.R3", con("accounting"), false, ev, "the worker itself changes the wait-group count ("+ev.Class+"): a task's completion is counted by the wrapper Submit queued, exactly once; a second count lets Wait return while another task is still running")
				}
			case "go":
				chk(c, "C08.R2", con("go"), false, ev, "the worker starts a goroutine per task: more than `workers` tasks can be in flight")
			case "send":
				chk(c, "C08.R2", con("receive"), false, ev, "the worker sends on a channel")
			case "return":
				chk(c, "C08.R2", con("return"), pending == nil || c.IsNil(pending) == eng.TriTrue || (okT != nil && c.Eval(okT) == eng.TriFalse), ev, "the worker exits holding a received task it never ran")
				switch st {
				case "got-done":
					closedListen["done"] = true
				case "got-task":
					if okT != nil && c.Eval(okT) == eng.TriFalse {
						closedListen["tasks"] = true
					}
				}
				chk(c, "C12.R4", con("return"), st == "got-done" || (st == "got-task" && okT != nil && c.Eval(okT) == eng.TriFalse), ev, "the worker exits for a reason other than a closed task channel or the done signal (state "+st+")")
			}
			return kvState{s: st, terms: []*eng.Term{pending, okT}}
		}
		run(workerFn, workerFree, mon)
	} else {
		col.Check("C08.R2", "WorkerPool.worker:receive", false, p.Position(r.FnNewWorkerPool.Pos()), "cannot find the worker method started by the pool constructor", nil)
	}

	// ---- NewWorkerPool -----------------------------------------------------------
	if fn := r.FnNewWorkerPool; fn != nil && len(fn.Params) == 1 && goInstr != nil && ctorOwns {
		workers := eng.Param(0, fn.Params[0].Name())
		mon := &poolMon{name: "ctor", init: func() eng.MState { return kvState{s: "0", terms: []*eng.Term{nil}} }}
		mon.on = func(c *eng.Ctx, ms eng.MState, ev *eng.Event) eng.MState {
			s := ms.(kvState)
			var inIter int
			fmt.Sscanf(s.s, "%d", &inIter)
			pool := s.terms[0]
			con := func(role string) string { return "NewWorkerPool:" + role }
			switch ev.Kind {
			case "make":
				if ev.Class == "chan" && ev.Val != nil {
					b := c.E.Bounds(c.St, ev.Val)
					chk(c, "C19.R5,C12.R6", con("make-chan"), b.HasLo && b.Lo >= 0, ev, "the pool constructor makes a channel whose size ("+ev.Val.Pretty()+") is not known to be non-negative: a non-positive pool size would panic instead of meaning one worker")
				}
			case "go":
				// the pool the started worker serves: the receiver, or what the closure captured
				var served *eng.Term
				switch {
				case ev.Callee == workerFn && len(ev.Args) >= 1 && workerPoolFree < 0:
					served = ev.Args[0] // further arguments (a worker id) do not matter
				case ev.Callee == workerFn && workerPoolFree >= 0 && ev.FnTerm != nil && ev.FnTerm.K == eng.KClosure && workerPoolFree < len(ev.FnTerm.A):
					served = ev.FnTerm.A[workerPoolFree]
					if m := c.Mem(served); m != nil && m.K != eng.KUnknown && m.K != eng.KLoad {
						served = m // the captured variable's content
					}
				}
				ok := served != nil
				chk(c, "C08.R1", con("spawn"), ok, ev, "the constructor starts something other than the pool's worker")
				if ok {
					if pool == nil {
						pool = served
					}
					chk(c, "C08.R1", con("spawn"), pool == served, ev, "workers are started on different pools")
				}
				if inIter < 2 {
					inIter++
				}
			case "loophead":
				if ev.Taken {
					fi := c.E.InfoOf(ev.Fn)
					if l := fi.LoopOf(goInstr.Block()); l != nil && l.Header == ev.Succ {
						chk(c, "C08.R1", con("spawn-loop-iteration"), inIter == 1, ev, fmt.Sprintf("an iteration of the spawn loop started %d workers (want exactly 1)", inIter))
					}
					inIter = 0
				}
			case "branch":
				if ifi, ok := ev.Instr.(*ssa.If); ok {
					fi := c.E.InfoOf(ev.Fn)
					if l, _, ok := fi.IVExit(ifi); ok && l == fi.LoopOf(goInstr.Block()) {
						// the bound is `workers` when workers > 0, else the constant 1
						okB, msg := false, ""
						var bounds []*eng.Term
						ev.Cond.Walk(func(n *eng.Term) {
							if n.K == eng.KParam || (n.K == eng.KConst && n.IsInt) {
								bounds = append(bounds, n)
							}
						})
						pos := c.Eval(eng.Bin("<", eng.ConstInt(0), workers))
						ev.Cond.Walk(func(n *eng.Term) {
							if n.K == eng.KPure && n.S == "builtin.max" && len(n.A) == 2 {
								a0, a1 := n.A[0], n.A[1]
								if (a0 == workers && a1.IsConstInt() && a1.I == 1) || (a1 == workers && a0.IsConstInt() && a0.I == 1) {
									okB = true
								}
							}
						})
						for _, b := range bounds {
							if b == workers && pos == eng.TriTrue {
								okB = true
							}
							if b.IsConstInt() && b.I == 1 && pos == eng.TriFalse {
								okB = true
							}
						}
						if !okB {
							msg = "the spawn loop is bounded by " + ev.Cond.Pretty() + " (workers>0 known: " + fmt.Sprint(pos) + "): not max(1, workers)"
						}
						chk(c, "C08.R1,C19.R5,C12.R8", con("spawn-bound"), okB, ev, msg)
					}
				}
			case "return":
				if len(ev.Results) == 1 {
					chk(c, "C08.R1", con("return"), pool != nil && ev.Results[0] == pool, ev, "the constructor returns a pool other than the one whose workers it started (or started none)")
					obj := c.Mem(ev.Results[0])
					okF := obj.K == eng.KStruct && obj.A[pf.tasks].K == eng.KMake && (pf.done < 0 || obj.A[pf.done].K == eng.KMake)
					chk(c, "C12.R6", con("channels"), okF, ev, "the pool's channels are not freshly made in the constructor")
				}
			}
			return kvState{s: fmt.Sprint(inIter), terms: []*eng.Term{pool}}
		}
		e := run(fn, nil, mon)
		// static arithmetic of the spawn loop
		fi := e.InfoOf(goFn)
		if l := fi.LoopOf(goInstr.Block()); l != nil {
			msg, ok := retryLoopCount(fi, l, goInstr.Block())
			msg = strings.ReplaceAll(strings.ReplaceAll(msg, "exec attempt", "worker start"), "attempts", "workers")
			col.Check("C08.R1", "NewWorkerPool:spawn-loop-count", ok, p.Position(goInstr.Pos()), msg, nil)
		} else {
			col.Check("C08.R1", "NewWorkerPool:spawn-loop-count", false, p.Position(goInstr.Pos()), "workers are not started by a counted loop", nil)
		}
	}

	// ---- Wait -------------------------------------------------------------------
	if fn := r.PoolWait; fn != nil && len(fn.Params) == 1 {
		recv := eng.Param(0, fn.Params[0].Name())
		mon := &poolMon{name: "wait", init: func() eng.MState { return kvState{s: "0"} }}
		mon.on = func(c *eng.Ctx, ms eng.MState, ev *eng.Event) eng.MState {
			s := ms.(kvState)
			n := 0
			fmt.Sscanf(s.s, "%d", &n)
			switch {
			case ev.Kind == "call" && ev.Class == "wg.Wait":
				chk(c, "C12.R5", "WorkerPool.Wait:wg-wait", len(ev.Args) == 1 && ev.Args[0] == eng.FieldAddr(recv, pf.wg), ev, "Wait waits on "+prettyArgs(ev.Args)+", not on the pool's WaitGroup")
				n++
			case ev.Kind == "return":
				chk(c, "C12.R5", "WorkerPool.Wait:return", n >= 1, ev, "Wait can return without waiting for the submitted tasks")
			}
			return kvState{s: fmt.Sprint(n)}
		}
		run(fn, nil, mon)
	}

	// ---- Close ------------------------------------------------------------------
	if fn := r.PoolClose; fn != nil && len(fn.Params) == 1 {
		recv := eng.Param(0, fn.Params[0].Name())
		closed := map[string]int{}
		mon := &poolMon{name: "close", init: func() eng.MState { return kvState{s: ""} }}
		mon.on = func(c *eng.Ctx, ms eng.MState, ev *eng.Event) eng.MState {
			s := ms.(kvState)
			switch ev.Kind {
			case "close":
				name := ""
				switch ev.Addr {
				case eng.Load(eng.FieldAddr(recv, pf.tasks)):
					name = "tasks"
				default:
					if pf.done >= 0 && ev.Addr == eng.Load(eng.FieldAddr(recv, pf.done)) {
						name = "done"
					}
				}
				chk(c, "C12.R6", "WorkerPool.Close:close", name != "", ev, "Close closes "+ev.Addr.Pretty()+", which is not a channel of the pool")
				chk(c, "C12.R6", "WorkerPool.Close:close", !strings.Contains(s.s, name+";"), ev, "Close closes the "+name+" channel twice (panic)")
				s.s += name + ";"
			case "return":
				for _, n := range strings.Split(s.s, ";") {
					if n != "" {
						closed[n]++
					}
				}
				chk(c, "C12.R6", "WorkerPool.Close:return", s.s != "", ev, "Close closes no channel: the workers are never told to stop (goroutine leak)")
			}
			return kvState{s: s.s}
		}
		run(fn, nil, mon)
		// cross-check with the worker: some channel closed by Close makes the worker return
		stops := false
		for n := range closed {
			if closedListen[n] {
				stops = true
			}
		}
		// every blocking point of the worker, taken by itself, is woken by something Close closes
		for site, set := range blockListens {
			woken := false
			for n := range set {
				if closed[n] > 0 {
					woken = true
				}
			}
			col.CheckAt("C12.R6", "WorkerPool.worker:woken-by-close", woken, site, fmt.Sprintf("the worker can block here listening only on %v while Close closes %v: a worker waiting at this point is never released (goroutine leak)", keysOfB(set), keysOf(closed)), nil)
		}
		col.Check("C12.R6", "WorkerPool.Close:stops-workers", stops, p.Position(fn.Pos()), fmt.Sprintf("Close closes %v but the worker only returns on %v: workers survive Close", keysOf(closed), keysOfB(closedListen)), nil)
	}

	// ---- who may touch the pool's fields / the task channel -------------------------
	allowed := map[*ssa.Function]bool{}
	for _, fn := range p.AllFunctions() {
		root := fn
		for root.Parent() != nil {
			root = root.Parent()
		}
		if root == r.FnNewWorkerPool || (root.Signature.Recv() != nil && recvName(root.Signature.Recv().Type()) == "WorkerPool") {
			allowed[fn] = true
		}
		// another constructor of the pool (a package function returning *WorkerPool)
		if res := root.Signature.Results(); root.Signature.Recv() == nil && res.Len() == 1 && isNamedPtr(res.At(0).Type(), r.WorkerPool) {
			allowed[fn] = true
		}
	}
	bad := ""
	nAcc := 0
	for _, fn := range p.AllFunctions() {
		for _, b := range fn.Blocks {
			for _, ins := range b.Instrs {
				switch x := ins.(type) {
				case *ssa.FieldAddr:
					if isNamedPtr(x.X.Type(), r.WorkerPool) {
						nAcc++
						if !allowed[fn] {
							bad = funcLabel(fn) + " at " + posStr(p.Position(x.Pos()))
						}
					}
				case *ssa.Send:
					if isTaskChan(x.Chan.Type()) && !allowed[fn] {
						bad = funcLabel(fn) + " sends on a task channel at " + posStr(p.Position(x.Pos()))
					}
				case *ssa.UnOp:
					if x.Op == token.ARROW && isTaskChan(x.X.Type()) && !allowed[fn] {
						bad = funcLabel(fn) + " receives from a task channel at " + posStr(p.Position(x.Pos()))
					}
				}
			}
		}
	}
	// tasks are taken off the queue (and therefore executed) by the worker function only:
	// any other receiver is an extra executor beside the c workers
	badRecv, nRecv := "", 0
	for _, fn := range p.AllFunctions() {
		root := fn // the worker function itself when fn is it or is nested in it
		for root != workerFn && root.Parent() != nil {
			root = root.Parent()
		}
		for _, b := range fn.Blocks {
			for _, ins := range b.Instrs {
				var ch ssa.Value
				switch x := ins.(type) {
				case *ssa.UnOp:
					if x.Op == token.ARROW {
						ch = x.X
					}
				case *ssa.Range:
					ch = x.X
				case *ssa.Select:
					for _, st := range x.States {
						if st.Dir == types.RecvOnly && isTaskChan(st.Chan.Type()) {
							nRecv++
							if root != workerFn {
								badRecv = funcLabel(fn) + " at " + posStr(p.Position(x.Pos()))
							}
						}
					}
				}
				if ch != nil && isTaskChan(ch.Type()) {
					nRecv++
					if root != workerFn {
						badRecv = funcLabel(fn) + " at " + posStr(p.Position(ins.Pos()))
					}
				}
			}
		}
	}
	col.Check("C08.R2,C12.R4", "package:task-receivers", badRecv == "" && nRecv > 0 && workerFn != nil, p.Position(r.FnNewWorkerPool.Pos()), "queued tasks are received outside the worker function (an executor beside the workers): "+badRecv, nil)
	col.Check("C12.R7,C08.R3", "package:pool-field-access", bad == "" && nAcc > 0, p.Position(r.FnNewWorkerPool.Pos()), "the pool's internals are touched outside its own methods: "+bad, nil)
	return res
}

func funcLabelOrNone(f *ssa.Function) string {
	if f == nil {
		return "no function"
	}
	return funcLabel(f)
}

func keysOf(m map[string]int) []string {
	var out []string
	for k := range m {
		out = append(out, k)
	}
	return out
}
func keysOfB(m map[string]bool) []string {
	var out []string
	for k := range m {
		out = append(out, k)
	}
	return out
}

func isNamedPtr(t types.Type, n *types.Named) bool {
	if n == nil {
		return false
	}
	if p, ok := t.Underlying().(*types.Pointer); ok {
		return types.Identical(p.Elem(), n)
	}
	return false
}

func isTaskChan(t types.Type) bool {
	ch, ok := t.Underlying().(*types.Chan)
	if !ok {
		return false
	}
	sig, ok := ch.Elem().Underlying().(*types.Signature)
	return ok && sig.Params().Len() == 0 && sig.Results().Len() == 0
}

// isPkgVarCall: the call goes through a package-level function variable (an internal trace or
// debug hook), not through a value a caller supplied.
func isPkgVarCall(ev *eng.Event) bool {
	return ev.Kind == "call" && ev.FnTerm != nil && ev.FnTerm.K == eng.KLoad && ev.FnTerm.A[0].K == eng.KGlobal
}
