package rules

import (
	"go/constant"
	"go/token"
	"go/types"
	"strings"

	"flytsa/internal/eng"
	"flytsa/internal/load"

	"golang.org/x/tools/go/ssa"
)

// Roles resolves the anchors of the flyt package through the type-checked
// program (exported API by name and signature; helpers only by reachability).
type Roles struct {
	P       *load.Program
	Missing []string

	Node, Retryable, Fallback             *types.Named
	BatchNode, BatchNodeBuilder, BaseNode *types.Named
	CustomNode, NodeBuilder, Flow         *types.Named
	SharedStore, Result, WorkerPool       *types.Named
	Action                                *types.Named
	cb                                    map[string]*types.Signature // callback method name -> signature
	FnRun, FnNewWorkerPool, FnToSlice     *ssa.Function
	PoolSubmit, PoolWait, PoolClose       *ssa.Function
	getters                               map[*ssa.Function]string
}

// NewRoles resolves all anchors; missing ones are listed in Missing.
func NewRoles(p *load.Program) *Roles {
	r := &Roles{P: p, cb: map[string]*types.Signature{}, getters: map[*ssa.Function]string{}}
	named := func(n string) *types.Named {
		t := p.Named(n)
		if t == nil {
			r.Missing = append(r.Missing, "type "+n)
		}
		return t
	}
	r.Node, r.Retryable, r.Fallback = named("Node"), named("RetryableNode"), named("FallbackNode")
	r.BatchNode, r.BatchNodeBuilder, r.BaseNode = named("BatchNode"), named("BatchNodeBuilder"), named("BaseNode")
	r.CustomNode, r.NodeBuilder, r.Flow = named("CustomNode"), named("NodeBuilder"), named("Flow")
	r.SharedStore, r.Result, r.WorkerPool = named("SharedStore"), named("Result"), named("WorkerPool")
	r.Action = named("Action")
	for _, it := range []*types.Named{r.Node, r.Retryable, r.Fallback} {
		if it == nil {
			continue
		}
		if iface, ok := it.Underlying().(*types.Interface); ok {
			for i := 0; i < iface.NumMethods(); i++ {
				m := iface.Method(i)
				r.cb[m.Name()] = m.Type().(*types.Signature)
			}
		} else {
			r.Missing = append(r.Missing, "interface "+it.Obj().Name())
		}
	}
	for _, n := range []string{"Prep", "Exec", "Post", "ExecFallback", "GetMaxRetries", "GetWait"} {
		if r.cb[n] == nil {
			r.Missing = append(r.Missing, "callback method "+n)
		}
	}
	fn := func(n string) *ssa.Function {
		f := p.Func(n)
		if f == nil {
			r.Missing = append(r.Missing, "func "+n)
		}
		return f
	}
	meth := func(t, n string) *ssa.Function {
		f := p.Method(t, n)
		if f == nil {
			r.Missing = append(r.Missing, "method "+t+"."+n)
		}
		return f
	}
	r.FnRun = fn("Run")
	r.FnNewWorkerPool = fn("NewWorkerPool")
	r.FnToSlice = fn("ToSlice")
	r.PoolSubmit, r.PoolWait, r.PoolClose = meth("WorkerPool", "Submit"), meth("WorkerPool", "Wait"), meth("WorkerPool", "Close")
	for _, g := range []string{"GetBatchConcurrency", "GetBatchErrorHandling", "GetMaxRetries", "GetWait"} {
		if f := meth("BaseNode", g); f != nil {
			r.getters[f] = g
		}
	}
	return r
}

// DefaultActionValue returns the value of the exported constant DefaultAction ("" if absent).
func (r *Roles) DefaultActionValue() string {
	if c, ok := r.P.Types.Scope().Lookup("DefaultAction").(*types.Const); ok && c.Val().Kind() == constant.String {
		return constant.StringVal(c.Val())
	}
	return ""
}

// sigMatches compares two signatures ignoring receivers.
func sigMatches(a, b *types.Signature) bool {
	return types.Identical(types.NewSignatureType(nil, nil, nil, a.Params(), a.Results(), a.Variadic()),
		types.NewSignatureType(nil, nil, nil, b.Params(), b.Results(), b.Variadic()))
}

// CallbackName returns the phase-method name if the invoked method is a node
// callback (by name and signature, whatever interface it is invoked through).
func (r *Roles) CallbackName(m *types.Func) string {
	if m == nil {
		return ""
	}
	if sig, ok := r.cb[m.Name()]; ok && sigMatches(sig, m.Type().(*types.Signature)) {
		return m.Name()
	}
	return ""
}

func isNamed(t types.Type, pkg, name string) bool {
	if p, ok := t.(*types.Pointer); ok {
		t = p.Elem()
	}
	n, ok := t.(*types.Named)
	if !ok || n.Obj().Pkg() == nil {
		return false
	}
	return n.Obj().Pkg().Path() == pkg && n.Obj().Name() == name
}

// Mode selects which in-package functions are summarised as events.
type Mode struct {
	SummarisePool    bool // pool functions become pool.* events (Submit runs its task)
	SummariseRun     bool // static calls to Run become ChildRun events
	SummariseCfg     bool // BaseNode getters become cfg:* events
	SummariseToSlice bool // ToSlice becomes an event (it is verified on its own by C15)
	// PureFns: in-package functions summarised as deterministic calls (results are Pure terms named by the map value).
	PureFns map[*ssa.Function]string
}

// Classifier returns the engine hook for the given mode.
func (r *Roles) Classifier(m Mode) func(ci *eng.CallInfo) *eng.Disposition {
	return func(ci *eng.CallInfo) *eng.Disposition {
		if ci.IsInvoke {
			if n := r.CallbackName(ci.Method); n != "" {
				return &eng.Disposition{Act: eng.ActEvent, Class: "cb:" + n}
			}
			if m.SummariseCfg {
				// configuration getters reached through any interface
				switch ci.Method.Name() {
				case "GetBatchConcurrency", "GetBatchErrorHandling":
					if f := r.P.Method("BaseNode", ci.Method.Name()); f != nil && sigMatches(f.Signature, ci.Method.Type().(*types.Signature)) {
						return &eng.Disposition{Act: eng.ActEvent, Class: "cfg:" + ci.Method.Name()}
					}
				}
			}
			rt := ci.Common.Value.Type()
			if isNamed(rt, "reflect", "Type") {
				// methods of reflect.Type are deterministic functions of the type
				n := ci.Method.Type().(*types.Signature).Results().Len()
				res := make([]*eng.Term, n)
				for k := range res {
					res[k] = eng.Pure("reflect.Type."+ci.Method.Name(), k, append([]*eng.Term{ci.Recv}, ci.Args...)...)
				}
				return &eng.Disposition{Act: eng.ActEvent, Class: "reflect.Type." + ci.Method.Name(), Results: res}
			}
			if isNamed(rt, "context", "Context") {
				switch ci.Method.Name() {
				case "Err":
					return &eng.Disposition{Act: eng.ActEvent, Class: "ctx.Err"}
				case "Done":
					return &eng.Disposition{Act: eng.ActEvent, Class: "ctx.Done"}
				}
				return &eng.Disposition{Act: eng.ActEvent, Class: "ctx.other"}
			}
			return nil
		}
		if f := ci.Static; f != nil {
			if name, ok := m.PureFns[f]; ok {
				n := f.Signature.Results().Len()
				res := make([]*eng.Term, n)
				for k := range res {
					res[k] = eng.Pure(name, k, ci.Args...)
				}
				return &eng.Disposition{Act: eng.ActEvent, Class: "sum:" + name, Results: res}
			}
			if m.SummarisePool {
				switch f {
				case r.FnNewWorkerPool:
					return &eng.Disposition{Act: eng.ActEvent, Class: "pool.New"}
				case r.PoolSubmit:
					return &eng.Disposition{Act: eng.ActEvent, Class: "pool.Submit", TaskArg: 2}
				case r.PoolWait:
					return &eng.Disposition{Act: eng.ActEvent, Class: "pool.Wait"}
				case r.PoolClose:
					return &eng.Disposition{Act: eng.ActEvent, Class: "pool.Close"}
				}
			}
			if m.SummariseRun && f == r.FnRun {
				return &eng.Disposition{Act: eng.ActEvent, Class: "ChildRun", AliasArgs: []int{1}}
			}
			if m.SummariseToSlice && r.FnToSlice != nil && f == r.FnToSlice {
				return &eng.Disposition{Act: eng.ActEvent, Class: "ToSlice"}
			}
			if m.SummariseCfg {
				if g, ok := r.getters[f]; ok {
					return &eng.Disposition{Act: eng.ActEvent, Class: "cfg:" + g}
				}
			}
			switch eng.CalleeName(f) {
			case "time.After":
				return &eng.Disposition{Act: eng.ActEvent, Class: "time.After"}
			case "time.NewTimer":
				return &eng.Disposition{Act: eng.ActEvent, Class: "time.NewTimer"}
			case "(*time.Timer).Reset":
				return &eng.Disposition{Act: eng.ActEvent, Class: "time.Reset"}
			case "time.Sleep":
				return &eng.Disposition{Act: eng.ActEvent, Class: "time.Sleep"}
			case "time.Tick", "time.NewTicker", "time.AfterFunc":
				return &eng.Disposition{Act: eng.ActEvent, Class: "time.other"}
			case "(*sync.Mutex).Lock", "(*sync.RWMutex).Lock":
				return &eng.Disposition{Act: eng.ActEvent, Class: "lock"}
			case "(*sync.Mutex).Unlock", "(*sync.RWMutex).Unlock":
				return &eng.Disposition{Act: eng.ActEvent, Class: "unlock"}
			case "(*sync.RWMutex).RLock":
				return &eng.Disposition{Act: eng.ActEvent, Class: "rlock"}
			case "(*sync.RWMutex).RUnlock":
				return &eng.Disposition{Act: eng.ActEvent, Class: "runlock"}
			case "(*sync.Mutex).TryLock", "(*sync.RWMutex).TryLock", "(*sync.RWMutex).TryRLock":
				return &eng.Disposition{Act: eng.ActEvent, Class: "trylock"}
			case "(*sync.WaitGroup).Add":
				return &eng.Disposition{Act: eng.ActEvent, Class: "wg.Add"}
			case "(*sync.WaitGroup).Done":
				return &eng.Disposition{Act: eng.ActEvent, Class: "wg.Done"}
			case "(*sync.WaitGroup).Wait":
				return &eng.Disposition{Act: eng.ActEvent, Class: "wg.Wait"}
			case "context.Cause":
				// not ctx.Err(): with WithCancelCause the cause does not match the context's error
				return &eng.Disposition{Act: eng.ActEvent, Class: "ctx.Cause"}
			}
			return nil
		}
		// dynamic call: name it after the struct field it was loaded from, if any
		if u, ok := ci.Common.Value.(*ssa.UnOp); ok && u.Op == token.MUL {
			if fa, ok := u.X.(*ssa.FieldAddr); ok {
				return &eng.Disposition{Act: eng.ActEvent, Class: "field:" + fieldName(fa.X.Type(), fa.Field)}
			}
		}
		if f, ok := ci.Common.Value.(*ssa.Field); ok {
			return &eng.Disposition{Act: eng.ActEvent, Class: "field:" + fieldName(f.X.Type(), f.Field)}
		}
		return nil
	}
}

func fieldName(t types.Type, idx int) string {
	if p, ok := t.Underlying().(*types.Pointer); ok {
		t = p.Elem()
	}
	name := "?"
	if n, ok := t.(*types.Named); ok {
		name = n.Obj().Name()
	}
	if s, ok := t.Underlying().(*types.Struct); ok && idx < s.NumFields() {
		return name + "." + s.Field(idx).Name()
	}
	return name + ".#"
}

// IsUserCallback reports classes that run user code of a node phase.
func IsUserCallback(class string) bool {
	switch class {
	case "cb:Prep", "cb:Exec", "cb:Post", "cb:ExecFallback":
		return true
	}
	return false
}

// funcLabel gives a short label of the function containing an event.
func funcLabel(f *ssa.Function) string {
	if f == nil {
		return "?"
	}
	n := f.Name()
	if p := f.Parent(); p != nil {
		n = p.Name() + "." + strings.TrimPrefix(n, p.Name())
	}
	if recv := f.Signature.Recv(); recv != nil {
		n = recvName(recv.Type()) + "." + f.Name()
	}
	return n
}

func recvName(t types.Type) string {
	if p, ok := t.(*types.Pointer); ok {
		t = p.Elem()
	}
	if n, ok := t.(*types.Named); ok {
		return n.Obj().Name()
	}
	return t.String()
}
