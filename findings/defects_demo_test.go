package flyt

// Demonstrations of the five genuine defects D1-D5 found in the pinned tree
// (b0efdb3). Each test fails on the pinned tree and passes after the matching
// "fix:" commit. Not part of any check; kept as documentation of the findings.

import (
	"context"
	"math"
	"testing"
)

// D1 (C15): AsSlice / GetSlice decide slice-ness by comparing interfaces.
func TestD1_AsSliceTotal(t *testing.T) {
	vals := map[string]any{
		"map":    map[string]int{"a": 1},
		"func":   func() {},
		"struct": struct{ S []int }{S: []int{1}},
	}
	for name, v := range vals {
		func() {
			defer func() {
				if r := recover(); r != nil {
					t.Errorf("AsSlice(%s) panicked: %v", name, r)
				}
			}()
			if _, ok := NewResult(v).AsSlice(); ok {
				t.Errorf("AsSlice(%s) reported a slice", name)
			}
		}()
		func() {
			defer func() {
				if r := recover(); r != nil {
					t.Errorf("GetSlice(%s) panicked: %v", name, r)
				}
			}()
			s := NewSharedStore()
			s.Set("k", v)
			if got := s.GetSlice("k"); got != nil {
				t.Errorf("GetSlice(%s) = %v", name, got)
			}
		}()
	}
	if _, ok := NewResult(math.NaN()).AsSlice(); ok {
		t.Errorf("AsSlice(NaN) reported a slice")
	}
	s := NewSharedStore()
	s.Set("nan", math.NaN())
	if got := s.GetSliceOr("nan", nil); got != nil {
		t.Errorf("GetSliceOr(NaN) = %v, want default", got)
	}
}

// D2 (C18): an empty batch returns post's empty action un-normalised.
func TestD2_EmptyBatchAction(t *testing.T) {
	n := NewBatchNode().
		WithPrepFunc(func(ctx context.Context, s *SharedStore) ([]Result, error) { return nil, nil }).
		WithPostFunc(func(ctx context.Context, s *SharedStore, a, b []Result) (Action, error) { return "", nil })
	act, err := Run(context.Background(), n, NewSharedStore())
	if err != nil || act != DefaultAction {
		t.Errorf("empty batch: action=%q err=%v, want %q", act, err, DefaultAction)
	}
}

// D3 (C09, C11): sequential stop mode leaves skipped slots as zero Results.
func TestD3_StopSlots(t *testing.T) {
	var got []Result
	n := NewBatchNode().WithBatchErrorHandling(false).
		WithPrepFunc(func(ctx context.Context, s *SharedStore) ([]Result, error) {
			return []Result{R(0), R(1), R(2)}, nil
		}).
		WithExecFunc(func(ctx context.Context, it Result) (Result, error) {
			if it.MustInt() == 0 {
				return Result{}, context.DeadlineExceeded
			}
			return it, nil
		}).
		WithPostFunc(func(ctx context.Context, s *SharedStore, items, res []Result) (Action, error) {
			got = res
			return "x", nil
		})
	if _, err := Run(context.Background(), n, NewSharedStore()); err != nil {
		t.Fatal(err)
	}
	for i := 1; i < 3; i++ {
		if !got[i].IsError() {
			t.Errorf("slot %d of a never-executed item is reported as success (%v)", i, got[i].Value())
		}
	}
	// cancellation, stop mode
	ctx, cancel := context.WithCancel(context.Background())
	cancel()
	got = nil
	if _, err := Run(ctx, n, NewSharedStore()); err == nil {
		for i := range got {
			if !got[i].IsError() {
				t.Errorf("cancelled: slot %d not an error", i)
			}
		}
	}
}

// D4 (C17): CustomNode.Post re-wraps an error Result returned by exec.
func TestD4_PostSeesErrorResult(t *testing.T) {
	var seen Result
	n := NewNode().
		WithExecFunc(func(ctx context.Context, p Result) (Result, error) {
			return NewErrorResult(context.Canceled), nil
		}).
		WithPostFunc(func(ctx context.Context, s *SharedStore, p, e Result) (Action, error) {
			seen = e
			return "x", nil
		})
	if _, err := Run(context.Background(), n, NewSharedStore()); err != nil {
		t.Fatal(err)
	}
	if !seen.IsError() {
		t.Errorf("post received a non-error Result wrapping %T", seen.value)
	}
}

// D5 (C19): NewBatchNode silently drops function options that NewNode accepts.
func TestD5_BatchCtorOptions(t *testing.T) {
	calls := 0
	f := func(ctx context.Context, it Result) (Result, error) { calls++; return it, nil }
	prep := func(ctx context.Context, s *SharedStore) ([]Result, error) { return []Result{R(1), R(2)}, nil }
	n := NewBatchNode(WithExecFunc(f)).WithPrepFunc(prep)
	if _, err := Run(context.Background(), n, NewSharedStore()); err != nil {
		t.Fatal(err)
	}
	if calls != 2 {
		t.Errorf("NewBatchNode(WithExecFunc(f)): %d exec calls, want 2", calls)
	}
}
